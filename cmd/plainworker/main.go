// Command plainworker runs one catalogue operation against the UN-instrumented
// /repo tree (fresh process per op) and prints its digest. It is the other side
// of instrumenter gate (ii): instrumented pass-through digests must equal these.
package main

import (
	"encoding/json"
	"fmt"
	"io"
	"os"
	"time"
	_ "time/tzdata"

	"verif/harness/ops"
)

func main() {
	go func() {
		time.Sleep(30 * time.Second)
		fmt.Fprintln(os.Stderr, "plainworker: watchdog")
		os.Exit(4)
	}()
	in, err := io.ReadAll(os.Stdin)
	if err != nil {
		os.Exit(2)
	}
	var q struct {
		Op    ops.Op `json:"op"`
		ZoneS int    `json:"zone_offset_s"`
		Zone  string `json:"zone"`
	}
	if err := json.Unmarshal(in, &q); err != nil {
		fmt.Fprintln(os.Stderr, "plainworker:", err)
		os.Exit(2)
	}
	time.Local = time.FixedZone("SIM", q.ZoneS)
	if q.Zone != "" {
		loc, err := time.LoadLocation(q.Zone)
		if err != nil {
			fmt.Fprintln(os.Stderr, "plainworker:", err)
			os.Exit(2)
		}
		time.Local = loc
	}
	os.Stdout.WriteString(ops.Run(q.Op))
}
