package main

import (
	"verif/harness/gen"
)

var libReal = []string{"calendar", "HolidayUtil", "LunarUtil", "SolarUtil", "ShouXingUtil", "TaoUtil", "FotoUtil (all seven library packages, statement for statement, from /repo's working tree)"}

func registerProps() {
	if len(props) > 0 {
		return
	}
	props["C09"] = &propDef{
		id: "C09", salt: 9, gen: gen.C09, quick: 2400, thorough: 20000, streams: 4, gateOps: true,
		rule: "one evaluation = one simulated run in its own OS process: 1-6 caller tasks over the instrumented library under a seeded scheduler " +
			"(seq histories / rr / random(p) / PCT(d) / targeted-class preemption), every result compared with the same call made as the first and only call of a fresh process; " +
			"HB race monitor, lock monitor and exact deadlock detection on every step. Non-trivial: multi-task run with at least one context switch inside a library call, " +
			"or single-task history with at least two operations. Distinct: by conflict signature (hash of the per-location order in which different tasks touched shared locations; " +
			"schedules that differ only in commuting steps count once) for multi-task runs, by event-log hash for histories.",
		real:    libReal,
		stubbed: []string{"sync.Mutex/RWMutex/Once -> simrt (simulated, blocking handled by the scheduler)", "time.Now -> simulated clock", "goroutine scheduling -> baton scheduler (one runnable task at a time, choice from the PRNG or the replay decision list)", "caller goroutines -> harness tasks executing generated scripts"},
		assume: []string{"the instrumenter's rewrite preserves behaviour (gated: repository suite passes on the instrumented copy; plain vs instrumented digests equal on a sample of the run universe)",
			"preemption granularity is between instrumented accesses (fields, written package variables, maps, slice elements reached through them, container/list calls), not machine instructions",
			"sampling: a clean batch is evidence, not proof"},
	}
	props["C14"] = &propDef{
		id: "C14", salt: 14, gen: gen.C14, quick: 700, thorough: 6000, streams: 4,
		rule: "one evaluation = one history of 0-8 fix-ups (1-6 segments each: add future block / add before existing records / add inside a festival / replace flag, name or target / remove / remove absent; optional extended names list) and recovered malformed queries, run in a fresh process against the real HolidayUtil and calendar packages; " +
			"after step 0 and after every step the whole table is compared with a day->record reference model through every view (by day incl. all three APIs, by month, by year, by target incl. absent targets) plus 24 sampled workday walks (|n|<=400) and pay-rate lookups per step. " +
			"Non-trivial: every run (step 0 alone checks all views of the shipped table). Distinct: by hash of the resolved history and the sampling seed.",
		real:    libReal,
		stubbed: []string{"none: single client, no scheduler needed; simrt runs in pass-through (solo) mode, only the lock monitor is active", "holiday table semantics -> reference model (ordered map day -> record) inside the worker"},
		assume: []string{"weekday of a civil date is taken from Go's time package; lunar month/day and the Qingming term of a day are taken from the library's own conversion (C01/C03/C05 territory)",
			"a fix-up string never names the same day twice and name lists only extend the list in use (the statement does not define the other cases)",
			"sampling: a clean batch is evidence, not proof"},
	}
	props["C10"] = &propDef{
		id: "C10", salt: 10, gen: gen.C10, quick: 1500, thorough: 30000, streams: 4,
		rule: "one evaluation = one run of 1-6 reverse lookups in a fresh process under a simulated wall clock and zone (time.Now is the simulated clock; time.Local is set by the simulator), with clock jumps (seconds to centuries, forwards and backwards, parked within 1 s of a local or UTC New Year, tick per read 0..1 s) and zone changes injected between lookups. " +
			"Each lookup takes a moment M (next to a Jie instant, Lichun day, rat hour, January of the base year, December of the current year, repeat of an earlier M under another clock/base/convention, or arbitrary), derives its pillars by the library's forward conversion, and checks soundness, strict order, and - when M lies between the first Jie of the base year and the end of the current year (local zone) at the instant of the call - completeness. " +
			"Non-trivial: at least one lookup fell inside the completeness range. Distinct: by hash of (M, convention, base, API, simulated current year) over the run.",
		real:    libReal,
		stubbed: []string{"time.Now -> simulated clock (set, jumped and ticked by the simulator)", "time.Local -> zone chosen by the simulator (fixed offsets -12h..+14h, odd half-hour offsets, and named zones with daylight-saving rules from the embedded tzdata)", "88% of the runs have a single caller (simrt in pass-through solo mode with the lock monitor active); 12% have 2-3 callers under the seeded scheduler (random / PCT / round-robin preemption at every instrumented access), whose lookups overlap and whose clock and zone faults land inside the other callers' lookups - completeness is then demanded up to the smallest local year the call could have read between its start and its return; findings of the scheduler-level monitors (races, blocked calls) in these runs are left to C09 (counted as probes, no verdict)"},
		assume: []string{"the forward conversion (moment -> four pillars, Jie instants) is trusted here; it is the subject of C03/C05",
			"'current year' is the civil year of the simulated wall clock in the simulated local zone",
			"sampling: a clean batch is evidence, not proof"},
	}
}
