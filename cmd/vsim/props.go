package main

import (
	"verif/harness/gen"
)

var libReal = []string{"calendar", "HolidayUtil", "LunarUtil", "SolarUtil", "ShouXingUtil", "TaoUtil", "FotoUtil (all seven library packages, statement for statement, from /repo's working tree)"}

func registerProps() {
	if len(props) > 0 {
		return
	}
	props["C09"] = &propDef{
		id: "C09", salt: 9, gen: gen.C09, quick: 1200, thorough: 20000, streams: 4, gateOps: true,
		rule: "one evaluation = one simulated run in its own OS process: 1-6 caller tasks over the instrumented library under a seeded scheduler " +
			"(seq histories / rr / random(p) / PCT(d) / targeted-class preemption), every result compared with the same call made as the first and only call of a fresh process; " +
			"HB race monitor, lock monitor and exact deadlock detection on every step. Non-trivial: multi-task run with at least one context switch inside a library call, " +
			"or single-task history with at least two operations. Distinct: by conflict signature (hash of the per-location order in which different tasks touched shared locations; " +
			"schedules that differ only in commuting steps count once) for multi-task runs, by event-log hash for histories.",
		real:    libReal,
		stubbed: []string{"sync.Mutex/RWMutex/Once -> simrt (simulated, blocking handled by the scheduler)", "time.Now -> simulated clock", "goroutine scheduling -> baton scheduler (one runnable task at a time, choice from the PRNG or the replay decision list)", "caller goroutines -> harness tasks executing generated scripts"},
		assume: []string{"the instrumenter's rewrite preserves behaviour (gated: repository suite passes on the instrumented copy; plain vs instrumented digests equal on a sample of the run universe)",
			"preemption granularity is between instrumented accesses (fields, written package variables, maps, slice elements reached through them, container/list calls), not machine instructions",
			"sampling: a clean batch is evidence, not proof"},
	}
}
