package main

import (
	"encoding/json"
	"fmt"
	"os"
	"path/filepath"
	"runtime"
	"sort"
	"sync"
	"time"

	"verif/harness/spec"
)

func clone(s *spec.Spec) *spec.Spec {
	b, _ := json.Marshal(s)
	var c spec.Spec
	json.Unmarshal(b, &c)
	return &c
}

// sameViolation: same class and key; for result divergences the key names the first differing accessor,
// which legitimately changes when steps are dropped, so there the operation kind (text before "/") is compared.
func sameViolation(r *spec.Result, v *spec.Violation) bool {
	if r == nil || (r.Status != "violation" && r.Status != "stuck") || r.Violation == nil || r.Violation.Class != v.Class {
		return false
	}
	if v.Class == "RESULT_DIVERGED" {
		return true
	}
	return r.Violation.Key == v.Key
}

// tryRepro runs cand; for PRNG-driven multi-task specs it tries several
// scheduler streams. On success it returns the reproducing spec (with the Run
// value that reproduced) and its result.
func tryRepro(cand *spec.Spec, v *spec.Violation, attempts int) (*spec.Spec, *spec.Result) {
	if cand.Decisions != nil || !multiTask(cand) {
		r, err := runWorker(cand, "")
		if err == nil && sameViolation(r, v) {
			return cand, r
		}
		debugErr(cand, err)
		return nil, nil
	}
	for k := 0; k < attempts; k++ {
		c := clone(cand)
		c.Run = cand.Run + k*1000003
		r, err := runWorker(c, "")
		if err == nil && sameViolation(r, v) {
			return c, r
		}
		debugErr(c, err)
		if err != nil || r.Status == "stuck" {
			break // every further attempt would cost a watchdog period
		}
	}
	return nil, nil
}

// firstSuccess evaluates candidates in parallel and returns the lowest-index
// one that reproduces (deterministic irrespective of completion order).
func firstSuccess(cands []*spec.Spec, v *spec.Violation, attempts int) (*spec.Spec, *spec.Result) {
	type res struct {
		s *spec.Spec
		r *spec.Result
	}
	out := make([]res, len(cands))
	sem := make(chan struct{}, runtime.NumCPU())
	var wg sync.WaitGroup
	for i := range cands {
		i := i
		wg.Add(1)
		sem <- struct{}{}
		go func() {
			defer wg.Done()
			defer func() { <-sem }()
			s, r := tryRepro(cands[i], v, attempts)
			out[i] = res{s, r}
		}()
	}
	wg.Wait()
	for _, o := range out {
		if o.s != nil {
			return o.s, o.r
		}
	}
	return nil, nil
}

func structuralCandidates(s *spec.Spec) []*spec.Spec {
	var out []*spec.Spec
	switch s.Property {
	case "C09":
		if len(s.Tasks) > 1 {
			for i := range s.Tasks {
				c := clone(s)
				c.Tasks = append(c.Tasks[:i:i], c.Tasks[i+1:]...)
				c.Decisions = nil
				out = append(out, c)
			}
		}
		for i := range s.Tasks {
			// drop the second half / first half of a long script, then single steps
			n := len(s.Tasks[i].Ops)
			if n >= 4 {
				c := clone(s)
				c.Tasks[i].Ops = c.Tasks[i].Ops[:n/2]
				c.Decisions = nil
				out = append(out, c)
				c = clone(s)
				c.Tasks[i].Ops = c.Tasks[i].Ops[n/2:]
				c.Decisions = nil
				out = append(out, c)
			}
			for j := 0; j < n; j++ {
				if n == 1 && len(s.Tasks) == 1 {
					continue
				}
				c := clone(s)
				c.Tasks[i].Ops = append(c.Tasks[i].Ops[:j:j], c.Tasks[i].Ops[j+1:]...)
				c.Decisions = nil
				out = append(out, c)
			}
		}
		for i := range s.Tasks {
			for j, st := range s.Tasks[i].Ops {
				if st.Flood == nil || st.Flood.Count <= 1 {
					continue
				}
				// a smaller flood: half, then nine tenths (a capacity threshold keeps the count just above it)
				for _, n := range []int{st.Flood.Count / 2, st.Flood.Count * 9 / 10} {
					if n >= 1 && n < st.Flood.Count {
						c := clone(s)
						c.Tasks[i].Ops[j].Flood.Count = n
						c.Decisions = nil
						out = append(out, c)
					}
				}
			}
		}
		if s.Config.Faults.Stall {
			c := clone(s)
			c.Config.Faults.Stall = false
			c.Decisions = nil
			out = append(out, c)
		}
		if s.Config.MapSalt != 0 {
			c := clone(s)
			c.Config.MapSalt = 0
			c.Config.Faults.MapOrder = false
			c.Decisions = nil
			out = append(out, c)
		}
		// lighter digests: a full digest replaced by nothing is covered by step removal; shrink sub sizes
		for u := range s.Universe {
			if s.Universe[u].K == "sub" && (s.Universe[u].N == 0 || s.Universe[u].N > 8) {
				c := clone(s)
				if c.Universe[u].N == 0 {
					c.Universe[u].N = 64
				} else {
					c.Universe[u].N /= 2
				}
				c.Decisions = nil
				out = append(out, c)
			}
		}
		// simpler arguments for the operations that are still used: midnight, first of the month, January
		if sizeOf(s)["ops"] <= 6 {
			used := map[int]bool{}
			for _, t := range s.Tasks {
				for _, st := range t.Ops {
					if st.U != nil {
						used[*st.U] = true
					}
					if st.Pub != nil {
						used[st.Pub.U] = true
					}
					if st.Read != nil {
						used[st.Read.U] = true
					}
				}
			}
			dated := map[string]bool{"solar": true, "solar2lunar": true, "lunar": true, "ltime": true, "tao": true, "foto": true, "eightchar": true, "lunar_next": true, "solar_next": true, "yun": true, "yunobj": true, "dayun": true}
			for u := range s.Universe {
				if !used[u] {
					continue
				}
				op := &s.Universe[u]
				tgt := op
				if op.K == "sub" && op.Sub != nil {
					tgt = op.Sub
				}
				if !dated[tgt.K] || len(tgt.A) < 6 {
					continue
				}
				try := func(mut func(a []int) bool) {
					c := clone(s)
					o := &c.Universe[u]
					if o.K == "sub" && o.Sub != nil {
						o = o.Sub
					}
					if mut(o.A) {
						c.Decisions = nil
						out = append(out, c)
					}
				}
				try(func(a []int) bool {
					if a[3] == 0 && a[4] == 0 && a[5] == 0 {
						return false
					}
					a[3], a[4], a[5] = 0, 0, 0
					return true
				})
				try(func(a []int) bool {
					if a[2] == 1 {
						return false
					}
					a[2] = 1
					return true
				})
				try(func(a []int) bool {
					if a[1] == 1 {
						return false
					}
					a[1] = 1
					return true
				})
			}
		}
	case "C10":
		// long sessions first lose whole stretches of lookups (halves, quarters, eighths), repeats re-pointed or dropped
		if n := len(s.Lookups); n > 12 {
			for _, parts := range []int{2, 4, 8} {
				sz := (n + parts - 1) / parts
				for a := 0; a < n; a += sz {
					b := a + sz
					if b > n {
						b = n
					}
					if c := dropLookups(s, a, b); c != nil {
						out = append(out, c)
					}
				}
			}
		}
		for i := range s.Lookups {
			if s.Lookups[i].API == 0 && s.Lookups[i].Base != 1900 && s.Lookups[i].Tie == nil {
				c := clone(s)
				c.Lookups[i].Base = 1900
				out = append(out, c)
			}
			if s.Lookups[i].Sect != 2 && s.Lookups[i].Sect != 1 {
				c := clone(s)
				c.Lookups[i].Sect = 2
				out = append(out, c)
			}
		}
		for i := range s.Lookups {
			if len(s.Lookups) == 1 {
				break
			}
			c := clone(s)
			c.Lookups = append(c.Lookups[:i:i], c.Lookups[i+1:]...)
			out = append(out, c)
		}
		for i := range s.Lookups {
			if s.Lookups[i].Clock != nil {
				c := clone(s)
				c.Lookups[i].Clock = nil
				c.Lookups[i].Fault = ""
				out = append(out, c)
			}
		}
	case "C14":
		for i := range s.History {
			c := clone(s)
			c.History = append(c.History[:i:i], c.History[i+1:]...)
			out = append(out, c)
		}
		for i := range s.History {
			f := s.History[i].Fix
			if f == nil {
				continue
			}
			for k := 0; k+18 <= len(f.Data) && len(f.Data) > 18; k += 18 {
				c := clone(s)
				d := c.History[i].Fix.Data
				c.History[i].Fix.Data = d[:k] + d[k+18:]
				out = append(out, c)
			}
			if f.Names != nil {
				c := clone(s)
				c.History[i].Fix.Names = nil
				out = append(out, c)
			}
		}
		for i := range s.History {
			a := s.History[i].Acts
			for k := range a {
				if len(a) == 1 {
					break
				}
				c := clone(s)
				c.History[i].Acts = append(c.History[i].Acts[:k:k], c.History[i].Acts[k+1:]...)
				out = append(out, c)
			}
			if s.History[i].Extra > 0 {
				c := clone(s)
				c.History[i].Extra = 0
				out = append(out, c)
			}
			if s.History[i].Rename != 0 {
				c := clone(s)
				c.History[i].Rename = 0
				out = append(out, c)
			}
			if fl := s.History[i].Flood; fl != nil && fl.Count > 1 {
				// a smaller flood: half, then nine tenths (a capacity threshold keeps the count just above it)
				for _, n := range []int{fl.Count / 2, fl.Count * 9 / 10} {
					if n >= 1 && n < fl.Count {
						c := clone(s)
						c.History[i].Flood.Count = n
						out = append(out, c)
					}
				}
			}
		}
	}
	return out
}

func sizeOf(s *spec.Spec) map[string]int {
	m := map[string]int{"tasks": len(s.Tasks), "lookups": len(s.Lookups), "history": len(s.History)}
	n := 0
	for _, t := range s.Tasks {
		n += len(t.Ops)
	}
	m["ops"] = n
	return m
}

// pruneUniverse drops universe entries no step refers to.
func pruneUniverse(s *spec.Spec) {
	if s.Property != "C09" {
		return
	}
	used := make([]int, len(s.Universe))
	for i := range used {
		used[i] = -1
	}
	mark := func(u int) { used[u] = 0 }
	for _, t := range s.Tasks {
		for _, st := range t.Ops {
			if st.U != nil {
				mark(*st.U)
			}
			if st.Pub != nil {
				mark(st.Pub.U)
			}
			if st.Read != nil {
				mark(st.Read.U)
			}
		}
	}
	n := 0
	newU := s.Universe[:0:0]
	for i, u := range used {
		if u == 0 {
			used[i] = n
			n++
			newU = append(newU, s.Universe[i])
		}
	}
	for ti := range s.Tasks {
		for si := range s.Tasks[ti].Ops {
			st := &s.Tasks[ti].Ops[si]
			if st.U != nil {
				v := used[*st.U]
				st.U = &v
			}
			if st.Pub != nil {
				st.Pub.U = used[st.Pub.U]
			}
			if st.Read != nil {
				st.Read.U = used[st.Read.U]
			}
		}
	}
	s.Universe = newU
}

// shrinkAndSave minimises the violating run, verifies that the replay file
// reproduces the same violation with the same event-log hash twice, writes it
// and returns its path.
func shrinkAndSave(p *propDef, o *outcome, ks []known) string {
	t0 := time.Now()
	v := o.r.Violation
	if v.Class == "NO_PROGRESS" {
		// every reproduction costs a full watchdog period: use a short one while searching, the full one to verify
		workerEnv = []string{"VERIF_WATCHDOG_S=12"}
		defer func() { workerEnv = nil }()
	}
	orig := sizeOf(o.s)
	orig["switches"] = int(o.r.Switches)
	cur := clone(o.s)
	cur.Ignore = o.s.Ignore
	curRes := o.r
	budget := 90 * time.Second
	// phase 1: structure
	for time.Since(t0) < budget {
		cands := structuralCandidates(cur)
		if len(cands) == 0 {
			break
		}
		s, r := firstSuccess(cands, v, 12)
		if s == nil {
			break
		}
		cur, curRes = s, r
	}
	// phase 2: schedule (explicit decision list)
	final := clone(cur)
	final.Decisions = curRes.Decisions
	if final.Decisions == nil {
		final.Decisions = []spec.Decision{}
	}
	if r, err := runWorker(final, ""); err != nil || !sameViolation(r, v) {
		// fall back to the unshrunk run's own decisions
		final = clone(o.s)
		final.Decisions = o.r.Decisions
		if final.Decisions == nil {
			final.Decisions = []spec.Decision{}
		}
		curRes = o.r
	} else {
		curRes = r
	}
	if multiTask(final) {
		chunk := len(final.Decisions) / 2
		if chunk == 0 && len(final.Decisions) > 0 {
			chunk = 1
		}
		for chunk >= 1 && time.Since(t0) < 2*budget {
			progress := false
			for start := 0; start < len(final.Decisions); {
				end := start + chunk
				if end > len(final.Decisions) {
					end = len(final.Decisions)
				}
				c := clone(final)
				c.Decisions = append(append([]spec.Decision{}, final.Decisions[:start]...), final.Decisions[end:]...)
				r, err := runWorker(c, "")
				if err == nil && sameViolation(r, v) && len(r.Decisions) < len(final.Decisions) {
					// keep only what the replay actually used
					c.Decisions = r.Decisions
					if c.Decisions == nil {
						c.Decisions = []spec.Decision{}
					}
					final, curRes = c, r
					progress = true
				} else {
					start = end
				}
			}
			if chunk == 1 {
				if !progress {
					break
				}
			} else {
				chunk /= 2
			}
		}
	}
	_ = curRes
	pruneUniverse(final)
	// verify twice in fresh processes
	workerEnv = nil
	if v.Class == "NO_PROGRESS" {
		workerEnv = confirmEnv // the minimised run must fail the way the confirmed one did, not merely look slow
	}
	r1, e1 := runWorker(final, "")
	r2, e2 := runWorker(final, "")
	note := ""
	if e1 != nil || e2 != nil || !sameViolation(r1, v) || !sameViolation(r2, v) || r1.LogHash != r2.LogHash {
		note = "WARNING: minimised replay did not reproduce identically; falling back to the original run"
		final = clone(o.s)
		final.Decisions = o.r.Decisions
		if final.Decisions == nil {
			final.Decisions = []spec.Decision{}
		}
		r1, _ = runWorker(final, "")
		if r1 == nil {
			r1 = o.r
		}
	}
	rf := replayFile_{Spec: final, Violation: r1.Violation, LogHash: r1.LogHash, Minimised: orig, Tree: treeInfo(), Note: note}
	if rf.Violation == nil {
		rf.Violation = v
	}
	b, _ := json.MarshalIndent(rf, "", " ")
	dir := filepath.Join(root, "replays")
	os.MkdirAll(dir, 0755)
	path := filepath.Join(dir, fmt.Sprintf("%s-%d-%d.json", p.id, o.seed, o.run))
	os.WriteFile(path, b, 0644)
	now := sizeOf(final)
	fmt.Printf("vsim: violation %s key=%q\n", v.Class, v.Key)
	var dk []string
	for k := range rf.Violation.Detail {
		dk = append(dk, k)
	}
	sort.Strings(dk)
	for _, k := range dk {
		fmt.Printf("  %s: %s\n", k, rf.Violation.Detail[k])
	}
	fmt.Printf("vsim: minimised from %v (switches %d) to %v (decisions %d) in %.1fs %s\n", orig, o.r.Switches, now, len(final.Decisions), time.Since(t0).Seconds(), note)
	return path
}

func debugErr(s *spec.Spec, err error) {
	if err == nil || os.Getenv("VERIF_DEBUG") == "" {
		return
	}
	b, _ := json.Marshal(s)
	f, _ := os.CreateTemp("", "vsim-debug-*.json")
	f.Write(b)
	f.Close()
	fmt.Fprintf(os.Stderr, "vsim: debug: candidate failed to run: %v (spec %s)\n", err, f.Name())
}

// dropLookups removes lookups [a,b) of a single-caller C10 run; a lookup that repeats the moment of a removed one
// goes too, later repeat indices are re-pointed. nil if nothing would remain.
func dropLookups(s *spec.Spec, a, b int) *spec.Spec {
	c := clone(s)
	newIdx := make([]int, len(c.Lookups))
	var keep []spec.Lookup
	for i, lk := range c.Lookups {
		newIdx[i] = -1
		if i >= a && i < b {
			continue
		}
		if lk.Repeat != nil {
			j := *lk.Repeat
			if j < 0 || j >= i || newIdx[j] < 0 {
				continue
			}
			nj := newIdx[j]
			lk.Repeat = &nj
		}
		newIdx[i] = len(keep)
		keep = append(keep, lk)
	}
	if len(keep) == 0 || len(keep) == len(c.Lookups) {
		return nil
	}
	c.Lookups = keep
	return c
}
