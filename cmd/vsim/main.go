// Command vsim is the driver: it instruments /repo's working tree into a
// scratch copy, builds the workers, runs the instrumenter gates, fans seeded
// simulated runs out over the cores, shrinks and replays violations, matches
// them against known_findings.json and writes evidence.
//
//	vsim check <C09|C10|C14> <quick|thorough>
//	vsim replay <file>
//	vsim selftest <C09|C10|C14>        determinism self-test
//	vsim spec <id> <seed> <run>        print a generated run spec
//
// Exit status: 0 property held on everything explored; 1 violation (with a
// "VIOLATION property=<id> replay=<path>" line); 2 machinery/build trouble
// (never a verdict).
package main

import (
	"bytes"
	"encoding/json"
	"fmt"
	"go/ast"
	"go/parser"
	"go/token"
	"os"
	"os/exec"
	"path/filepath"
	"runtime"
	"sort"
	"strconv"
	"strings"
	"sync"
	"time"

	"verif/harness/gen"
	"verif/harness/ops"
	"verif/harness/spec"
)

var (
	root    string // /verif
	repo    = "/repo"
	scratch string
	worker  string
	plain   string
	goEnv   []string
)

func die2(f string, a ...interface{}) {
	fmt.Fprintf(os.Stderr, "vsim: "+f+"\n", a...)
	cleanup()
	os.Exit(2)
}

func cleanup() {
	if scratch != "" && os.Getenv("VERIF_KEEP") == "" {
		os.RemoveAll(scratch)
	}
}

type propDef struct {
	id       string
	salt     uint64
	gen      func(seed uint64, run int) *spec.Spec
	quick    int
	thorough int
	streams  int // thorough: number of VERIF_SEED-derived streams
	rule     string
	real     []string
	stubbed  []string
	assume   []string
	gateOps  bool
}

var props = map[string]*propDef{}

func main() {
	if len(os.Args) < 2 {
		die2("usage: vsim check|replay|selftest|spec ...")
	}
	wd, _ := os.Getwd()
	root = wd
	if v := os.Getenv("VERIF_ROOT"); v != "" {
		root = v
	}
	if v := os.Getenv("VERIF_REPO"); v != "" {
		repo = v
	}
	goEnv = append(os.Environ(), "GOFLAGS=-mod=mod", "GOPROXY=off", "GOSUMDB=off", "GOTOOLCHAIN=local", "CGO_ENABLED=0")
	registerProps()
	if v := os.Getenv("VERIF_FLOOD_P"); v != "" {
		// experiment knob (not set by the registered commands): share of C09 runs that carry a volume fault; also
		// honoured by selftest, so that determinism can be examined on flooded runs only (VERIF_FLOOD_P=1)
		if x, err := strconv.ParseFloat(v, 64); err == nil {
			gen.FloodP = x
		}
	}
	switch os.Args[1] {
	case "check":
		if len(os.Args) < 4 {
			die2("usage: vsim check <id> <quick|thorough>")
		}
		p := props[os.Args[2]]
		if p == nil {
			die2("unknown property %s", os.Args[2])
		}
		os.Exit(check(p, os.Args[3]))
	case "replay":
		if len(os.Args) < 3 {
			die2("usage: vsim replay <file>")
		}
		os.Exit(replayFile(os.Args[2]))
	case "selftest":
		if len(os.Args) < 3 {
			die2("usage: vsim selftest <id>")
		}
		p := props[os.Args[2]]
		if p == nil {
			die2("unknown property %s", os.Args[2])
		}
		os.Exit(selftest(p))
	case "spec":
		gen.DictYears, gen.DictBounds = dictYears(repo)
		p := props[os.Args[2]]
		seed, _ := strconv.ParseUint(os.Args[3], 10, 64)
		run, _ := strconv.Atoi(os.Args[4])
		b, _ := json.MarshalIndent(p.gen(seed, run), "", " ")
		fmt.Println(string(b))
	default:
		die2("unknown command %s", os.Args[1])
	}
}

func seedEnv() uint64 {
	v := os.Getenv("VERIF_SEED")
	if v == "" {
		return 1
	}
	n, err := strconv.ParseUint(v, 10, 64)
	if err != nil {
		i, err2 := strconv.ParseInt(v, 10, 64)
		if err2 != nil {
			die2("bad VERIF_SEED %q", v)
		}
		n = uint64(i)
	}
	return n
}

// ---------------------------------------------------------------------------
// build

func run(dir string, name string, args ...string) (string, error) {
	cmd := exec.Command(name, args...)
	cmd.Dir = dir
	cmd.Env = goEnv
	var out bytes.Buffer
	cmd.Stdout = &out
	cmd.Stderr = &out
	err := cmd.Run()
	return out.String(), err
}

func build(withGate bool) {
	t0 := time.Now()
	var err error
	scratch, err = os.MkdirTemp("", "vsim-scratch-")
	if err != nil {
		die2("mktemp: %v", err)
	}
	inst := filepath.Join(root, "bin", "instrument")
	if _, err := os.Stat(inst); err != nil {
		if out, err := run(root, "go", "build", "-o", inst, "./cmd/instrument"); err != nil {
			die2("build instrument: %v\n%s", err, out)
		}
	}
	lib := filepath.Join(scratch, "lib")
	out, err := run(root, inst, "-src", repo, "-dst", lib, "-simrt", filepath.Join(root, "simrt"))
	if err != nil {
		die2("instrumenter refused the tree (no verdict):\n%s", out)
	}
	fmt.Print(out)
	mod := "module verif\n\ngo 1.18\n\nrequire github.com/6tail/lunar-go v0.0.0\n\nreplace github.com/6tail/lunar-go => " + lib + "\n"
	modfile := filepath.Join(scratch, "verif.mod")
	os.WriteFile(modfile, []byte(mod), 0644)
	worker = filepath.Join(scratch, "simworker")
	if out, err := run(root, "go", "build", "-modfile="+modfile, "-o", worker, "./cmd/simworker"); err != nil {
		die2("build simworker on the instrumented copy failed (no verdict):\n%s", out)
	}
	pmod := "module verif\n\ngo 1.18\n\nrequire github.com/6tail/lunar-go v0.0.0\n\nreplace github.com/6tail/lunar-go => " + repo + "\n"
	pmodfile := filepath.Join(scratch, "plain.mod")
	os.WriteFile(pmodfile, []byte(pmod), 0644)
	plain = filepath.Join(scratch, "plainworker")
	if out, err := run(root, "go", "build", "-modfile="+pmodfile, "-o", plain, "./cmd/plainworker"); err != nil {
		die2("build plainworker on %s failed (no verdict):\n%s", repo, out)
	}
	gen.DictYears, gen.DictBounds = dictYears(repo)
	fmt.Printf("vsim: dictionary from the tree: %d table years, %d comparison constants %v\n", len(gen.DictYears), len(gen.DictBounds), gen.DictBounds)
	if withGate {
		// gate (i): the repository's own suite on the instrumented copy, simrt in pass-through
		out, err := run(lib, "go", "test", "-vet=off", "-count=1", "-timeout", "20m", "./...")
		if err != nil {
			die2("gate (i) failed: repository test suite does not pass on the instrumented copy (no verdict):\n%s", tail(out, 3000))
		}
	}
	// free the instrumented copy's build output early? it lives in GOCACHE; scratch holds only sources + 2 binaries
	fmt.Printf("vsim: build+gate(i) %.1fs scratch=%s\n", time.Since(t0).Seconds(), scratch)
}

func tail(s string, n int) string {
	if len(s) > n {
		return s[len(s)-n:]
	}
	return s
}

// ---------------------------------------------------------------------------
// worker invocation

func runWorker(s *spec.Spec, logPath string) (*spec.Result, error) {
	return runWorkerEnv(s, logPath)
}

var driverKill = 150 * time.Second

// confirmEnv: how a suspected NO_PROGRESS is confirmed (and replayed): alone, ten times the per-call step budget, 600 s
var confirmEnv = []string{"VERIF_WATCHDOG_S=600", "VERIF_BUDGET_X=10"}

// workerEnv is added to the environment of every worker (e.g. a shorter stuck-call watchdog while shrinking).
var workerEnv []string

func runWorkerEnv(s *spec.Spec, logPath string, env ...string) (*spec.Result, error) {
	env = append(append([]string{}, workerEnv...), env...)
	in, _ := json.Marshal(s)
	args := []string{"run"}
	if logPath != "" {
		args = append(args, logPath)
	}
	cmd := exec.Command(worker, args...)
	if len(env) > 0 {
		cmd.Env = append(os.Environ(), env...)
	}
	cmd.Stdin = bytes.NewReader(in)
	var out, errb bytes.Buffer
	cmd.Stdout = &out
	cmd.Stderr = &errb
	if err := cmd.Start(); err != nil {
		return nil, err
	}
	done := make(chan error, 1)
	go func() { done <- cmd.Wait() }()
	kill := driverKill
	for _, e := range env {
		// a longer worker watchdog asked for by the caller moves the driver's kill limit with it
		if v, ok := strings.CutPrefix(e, "VERIF_WATCHDOG_S="); ok {
			if n, err := strconv.Atoi(v); err == nil && time.Duration(n+60)*time.Second > kill {
				kill = time.Duration(n+60) * time.Second
			}
		}
	}
	select {
	case err := <-done:
		if err != nil {
			return nil, fmt.Errorf("worker exit: %v: %s", err, tail(errb.String(), 2000))
		}
	case <-time.After(kill):
		cmd.Process.Kill()
		return nil, fmt.Errorf("worker killed by driver watchdog after %v", kill)
	}
	var r spec.Result
	if err := json.Unmarshal(out.Bytes(), &r); err != nil {
		return nil, fmt.Errorf("worker output: %v: %s / %s", err, tail(out.String(), 500), tail(errb.String(), 1500))
	}
	return &r, nil
}

type known struct {
	Status   string `json:"status"` // open | fixed
	Property string `json:"property"`
	Class    string `json:"class"`
	Key      string `json:"key"`
	What     string `json:"what"`
	Commit   string `json:"commit,omitempty"`
	Line     string `json:"line,omitempty"` // the "fixed: property=.." line required by the brief
}

func loadKnown() []known {
	b, err := os.ReadFile(filepath.Join(root, "known_findings.json"))
	if err != nil {
		return nil
	}
	var k []known
	if err := json.Unmarshal(b, &k); err != nil {
		die2("known_findings.json: %v", err)
	}
	return k
}

func matchKnown(ks []known, prop string, v *spec.Violation) *known {
	for i := range ks {
		k := &ks[i]
		if k.Status == "open" && k.Property == prop && k.Class == v.Class && k.Key == v.Key {
			return k
		}
	}
	return nil
}

// ---------------------------------------------------------------------------
// check

type outcome struct {
	run  int
	seed uint64
	s    *spec.Spec
	r    *spec.Result
	err  error
}

func check(p *propDef, tier string) int {
	t0 := time.Now()
	if tier != "quick" && tier != "thorough" {
		die2("tier must be quick or thorough")
	}
	seed := seedEnv()
	gen.Tier = tier
	fmt.Printf("vsim: property=%s tier=%s VERIF_SEED=%d\n", p.id, tier, seed)
	build(true)
	defer cleanup()
	ks := loadKnown()
	var ignore []string
	for _, k := range ks {
		if k.Status == "open" && k.Property == p.id {
			ignore = append(ignore, k.Class+" "+k.Key)
		}
	}
	nRuns := p.quick
	seeds := []uint64{seed}
	if tier == "thorough" {
		nRuns = p.thorough
		seeds = nil
		for i := 0; i < p.streams; i++ {
			seeds = append(seeds, seed*1000003+uint64(i)*7919+1)
		}
	}
	if v := os.Getenv("VERIF_RUNS"); v != "" {
		nRuns, _ = strconv.Atoi(v)
	}
	if p.gateOps {
		gateII(p, seeds[0])
	}
	type job struct {
		seed uint64
		run  int
	}
	total := nRuns * len(seeds)
	jobs := make(chan job, 64)
	results := make(chan outcome, 64)
	var stop bool
	var stopMu sync.Mutex
	go func() {
		for _, sd := range seeds {
			for i := 0; i < nRuns; i++ {
				stopMu.Lock()
				st := stop
				stopMu.Unlock()
				if st {
					break
				}
				jobs <- job{sd, i}
			}
		}
		close(jobs)
	}()
	nw := runtime.NumCPU()
	if v := os.Getenv("VERIF_WORKERS"); v != "" {
		nw, _ = strconv.Atoi(v)
	}
	var wg sync.WaitGroup
	for w := 0; w < nw; w++ {
		wg.Add(1)
		go func() {
			defer wg.Done()
			for j := range jobs {
				s := p.gen(j.seed, j.run)
				s.Ignore = ignore
				r, err := runWorker(s, "")
				results <- outcome{run: j.run, seed: j.seed, s: s, r: r, err: err}
			}
		}()
	}
	go func() { wg.Wait(); close(results) }()

	ag := newAgg(p)
	var stuck, slow []outcome
	var viols []outcome
	var internal []outcome
	done := 0
	for o := range results {
		done++
		if o.err != nil || o.r.Status == "internal" {
			internal = append(internal, o)
			stopMu.Lock()
			stop = true
			stopMu.Unlock()
			continue
		}
		if o.r.Status == "stuck" {
			stuck = append(stuck, o)
			continue
		}
		if o.r.Status == "slow" {
			slow = append(slow, o)
			continue
		}
		ag.add(o)
		if o.r.Status == "violation" {
			viols = append(viols, o)
			if matchKnown(ks, p.id, o.r.Violation) == nil {
				stopMu.Lock()
				stop = true
				stopMu.Unlock()
			}
		}
		if done%2000 == 0 {
			fmt.Printf("vsim: %d/%d runs, %.0fs\n", done, total, time.Since(t0).Seconds())
		}
	}
	// a worker that reported a call that did not return is re-run ALONE with a longer limit before anything is concluded
	sort.Slice(stuck, func(i, j int) bool {
		if stuck[i].seed != stuck[j].seed {
			return stuck[i].seed < stuck[j].seed
		}
		return stuck[i].run < stuck[j].run
	})
	haveNew := false
	for i := range viols {
		if matchKnown(ks, p.id, viols[i].r.Violation) == nil {
			haveNew = true
		}
	}
	for i, o := range stuck {
		if i >= 2 || haveNew {
			break // a violation is already in hand; the stuck runs add nothing
		}
		fmt.Printf("vsim: run seed=%d run=%d reported a call that did not return (%s); re-running it alone with ten times the step budget and a 600 s limit\n", o.seed, o.run, o.r.Violation.Detail["call"])
		r, err := runWorkerEnv(o.s, "", confirmEnv...)
		if err != nil {
			internal = append(internal, outcome{run: o.run, seed: o.seed, s: o.s, err: err})
			continue
		}
		if r.Status == "stuck" || (r.Status == "violation" && r.Violation != nil && r.Violation.Class == "NO_PROGRESS") {
			r.Status = "violation"
			o.r = r
			ag.add(o)
			viols = append(viols, o)
		} else {
			fmt.Printf("vsim: it finished when run alone (%s): treated as a slow run, not a finding\n", r.Status)
			o.r = r
			ag.add(o)
			if r.Status == "violation" {
				viols = append(viols, o)
			}
		}
	}
	// a run whose harness phase (not a library call) outlasted the watchdog on the loaded machine is re-run alone
	for i, o := range slow {
		if haveNew || len(internal) > 0 {
			break
		}
		if i >= 8 {
			internal = append(internal, outcome{run: o.run, seed: o.seed, s: o.s, err: fmt.Errorf("%d runs were slow outside library calls; not re-running more than 8", len(slow))})
			break
		}
		fmt.Printf("vsim: run seed=%d run=%d was slow outside any library call; re-running it alone with a 600 s limit\n", o.seed, o.run)
		r, err := runWorkerEnv(o.s, "", confirmEnv...)
		if err != nil || r.Status == "slow" || r.Status == "internal" {
			if err == nil {
				err = fmt.Errorf("slow run did not finish alone within 600 s: %s", r.Internal)
			}
			internal = append(internal, outcome{run: o.run, seed: o.seed, s: o.s, err: err})
			continue
		}
		if r.Status == "stuck" {
			r.Status = "violation"
		}
		o.r = r
		ag.add(o)
		if r.Status == "violation" {
			viols = append(viols, o)
		}
	}
	if len(internal) > 0 {
		o := internal[0]
		msg := ""
		if o.err != nil {
			msg = o.err.Error()
		} else {
			msg = o.r.Internal
		}
		b, _ := json.Marshal(o.s)
		os.MkdirAll(filepath.Join(root, "replays"), 0755)
		f := filepath.Join(root, "replays", fmt.Sprintf("internal-%s-%d-%d.json", p.id, o.seed, o.run))
		os.WriteFile(f, b, 0644)
		die2("machinery trouble in run seed=%d run=%d (no verdict; spec saved to %s): %s", o.seed, o.run, f, msg)
	}
	// classify violations: known findings are reported and do not fail the check
	sort.Slice(viols, func(i, j int) bool {
		if viols[i].seed != viols[j].seed {
			return viols[i].seed < viols[j].seed
		}
		return viols[i].run < viols[j].run
	})
	exit := 0
	knownSeen := map[string]int{}
	var newV *outcome
	for i := range viols {
		o := &viols[i]
		if k := matchKnown(ks, p.id, o.r.Violation); k != nil {
			knownSeen[k.What]++
			continue
		}
		if newV == nil {
			newV = o
		}
	}
	for _, o := range ag.knownHits() {
		knownSeen[o]++
	}
	var names []string
	for k := range knownSeen {
		names = append(names, k)
	}
	sort.Strings(names)
	for _, k := range names {
		fmt.Printf("KNOWN-FINDING: property=%s %s\n", p.id, k)
	}
	nviol := 0
	if newV != nil {
		nviol = 1
		path := shrinkAndSave(p, newV, ks)
		fmt.Printf("VIOLATION property=%s replay=%s\n", p.id, path)
		exit = 1
	}
	ag.write(tier, seed, time.Since(t0).Seconds(), nviol, len(seeds))
	fmt.Printf("vsim: %s %s: %d runs in %.1fs, %d distinct non-trivial, exit %d\n", p.id, tier, ag.n, time.Since(t0).Seconds(), len(ag.sigs), exit)
	return exit
}

// ---------------------------------------------------------------------------
// gate (ii): instrumented pass-through digests == plain digests

func gateII(p *propDef, seed uint64) {
	seen := map[string]bool{}
	type item struct {
		op   ops.Op
		zone int
		clk  spec.Clock
	}
	var items []item
	for run := 0; run < 40 && len(items) < 160; run++ {
		s := p.gen(seed, run)
		for _, op := range s.Universe {
			k := op.String()
			if seen[k] || op.K == "bazi" || (op.Sub != nil && op.Sub.K == "bazi") {
				continue
			}
			seen[k] = true
			items = append(items, item{op, s.Clock.ZoneS, s.Clock})
		}
	}
	type res struct {
		i    int
		a, b string
		err  error
	}
	ch := make(chan res, len(items))
	sem := make(chan struct{}, runtime.NumCPU())
	for i := range items {
		i := i
		sem <- struct{}{}
		go func() {
			defer func() { <-sem }()
			it := items[i]
			q1, _ := json.Marshal(map[string]interface{}{"op": it.op, "zone_offset_s": it.zone, "zone": it.clk.Zone})
			a, err := pipe(plain, q1)
			if err == errTimeout {
				// the plain tree hangs on this operation: not the instrumenter's doing; the runs will judge it
				ch <- res{i: i, a: "skip", b: "skip"}
				return
			}
			if err != nil {
				ch <- res{i: i, err: err}
				return
			}
			q2, _ := json.Marshal(map[string]interface{}{"op": it.op, "clock": it.clk})
			b, err := pipe(worker, q2, "oracle")
			if err == nil && strings.HasPrefix(b, "\x01STEPS=") {
				if i := strings.Index(b[1:], "\x01"); i > 0 {
					b = b[i+2:]
				}
			}
			if err == nil && strings.HasPrefix(b, "\x00VIOLATION") {
				a, b = "skip", "skip"
			}
			ch <- res{i, a, b, err}
		}()
	}
	skipped := 0
	for range items {
		r := <-ch
		if r.a == "skip" {
			skipped++
		}
		if r.err != nil {
			die2("gate (ii): %v", r.err)
		}
		if r.a != r.b {
			die2("gate (ii) failed: instrumented pass-through digest differs from the plain tree for %s (instrumenter bug, no verdict): %s", items[r.i].op, ops.FirstDiff(r.a, r.b))
		}
	}
	fmt.Printf("vsim: gate (ii) ok on %d operations (%d skipped: plain tree hangs or the fresh-process run itself violates)\n", len(items), skipped)
}

func pipe(bin string, in []byte, args ...string) (string, error) {
	cmd := exec.Command(bin, args...)
	cmd.Stdin = bytes.NewReader(in)
	var out, errb bytes.Buffer
	cmd.Stdout = &out
	cmd.Stderr = &errb
	if err := cmd.Start(); err != nil {
		return "", err
	}
	done := make(chan error, 1)
	go func() { done <- cmd.Wait() }()
	select {
	case err := <-done:
		if err != nil {
			return "", fmt.Errorf("%s: %v: %s", filepath.Base(bin), err, tail(errb.String(), 500))
		}
	case <-time.After(8 * time.Second):
		cmd.Process.Kill()
		return "", errTimeout
	}
	return out.String(), nil
}

var errTimeout = fmt.Errorf("timed out")

// ---------------------------------------------------------------------------
// replay

type replayFile_ struct {
	Spec      *spec.Spec        `json:"spec"`
	Violation *spec.Violation   `json:"violation"`
	LogHash   string            `json:"log_hash"`
	Minimised map[string]int    `json:"minimised_from"`
	Tree      map[string]string `json:"tree"`
	Note      string            `json:"note,omitempty"`
}

func replayFile(path string) int {
	b, err := os.ReadFile(path)
	if err != nil {
		die2("%v", err)
	}
	var rf replayFile_
	if err := json.Unmarshal(b, &rf); err != nil || rf.Spec == nil {
		// maybe a bare spec
		var s spec.Spec
		if err2 := json.Unmarshal(b, &s); err2 != nil || s.Property == "" {
			die2("not a replay file: %v", err)
		}
		rf.Spec = &s
	}
	registerProps()
	build(false)
	defer cleanup()
	var env []string
	if rf.Violation != nil && rf.Violation.Class == "NO_PROGRESS" {
		env = confirmEnv
	}
	r, err := runWorkerEnv(rf.Spec, os.Getenv("VERIF_EVENTLOG"), env...)
	if err != nil {
		die2("replay: %v", err)
	}
	if r.Status == "stuck" {
		r.Status = "violation"
	}
	if r.Status == "violation" {
		fmt.Printf("replay: %s key=%q log_hash=%s\n", r.Violation.Class, r.Violation.Key, r.LogHash)
		var ks []string
		for k := range r.Violation.Detail {
			ks = append(ks, k)
		}
		sort.Strings(ks)
		for _, k := range ks {
			fmt.Printf("  %s: %s\n", k, r.Violation.Detail[k])
		}
		same := rf.Violation != nil && rf.Violation.Class == r.Violation.Class && rf.Violation.Key == r.Violation.Key
		if rf.Violation != nil {
			fmt.Printf("replay: same violation as recorded: %v; same event-log hash: %v\n", same, rf.LogHash == r.LogHash)
		}
		fmt.Printf("VIOLATION property=%s replay=%s\n", rf.Spec.Property, path)
		return 1
	}
	if r.Status != "ok" {
		die2("replay: worker status %s: %s", r.Status, r.Internal)
	}
	fmt.Printf("replay: no violation (log_hash=%s)\n", r.LogHash)
	return 0
}

func treeInfo() map[string]string {
	m := map[string]string{}
	if out, err := run(repo, "git", "rev-parse", "HEAD"); err == nil {
		m["repo_head"] = strings.TrimSpace(out)
	}
	if out, err := run(repo, "git", "status", "--porcelain"); err == nil {
		m["dirty"] = strings.TrimSpace(out)
	}
	return m
}

// dictYears collects the integer literals between 1 and 9999 that occur in integer tables (composite literals
// with at least 8 integer elements) of the library's non-test sources: the years the code itself singles out.
func dictYears(root string) ([]int, []int) {
	seen := map[int]bool{}
	bounds := map[int]bool{}
	bound := func(e ast.Expr) {
		if u, ok := e.(*ast.UnaryExpr); ok {
			e = u.X
		}
		bl, ok := e.(*ast.BasicLit)
		if !ok || bl.Kind != token.INT {
			return
		}
		v, err := strconv.Atoi(bl.Value)
		if err != nil {
			return
		}
		switch {
		case v >= 5 && v <= 9999:
			bounds[v] = true
		case v > 1721425 && v < 5373484:
			bounds[int(float64(v-1721425)/365.2425)+1] = true
		}
	}
	fset := token.NewFileSet()
	filepath.Walk(root, func(p string, fi os.FileInfo, err error) error {
		if err != nil {
			return nil
		}
		if fi.IsDir() {
			if b := fi.Name(); p != root && (strings.HasPrefix(b, ".") || b == "test" || b == "demo" || b == "seeddemo") {
				return filepath.SkipDir
			}
			return nil
		}
		if !strings.HasSuffix(p, ".go") || strings.HasSuffix(p, "_test.go") {
			return nil
		}
		f, err := parser.ParseFile(fset, p, nil, parser.SkipObjectResolution)
		if err != nil {
			return nil
		}
		ast.Inspect(f, func(n ast.Node) bool {
			switch x := n.(type) {
			case *ast.BinaryExpr:
				switch x.Op {
				case token.EQL, token.NEQ, token.LSS, token.LEQ, token.GTR, token.GEQ:
					bound(x.X)
					bound(x.Y)
				}
			case *ast.CaseClause:
				for _, e := range x.List {
					bound(e)
				}
			}
			cl, ok := n.(*ast.CompositeLit)
			if !ok || len(cl.Elts) < 8 {
				return true
			}
			var vals []int
			for _, e := range cl.Elts {
				if bl, ok := e.(*ast.BasicLit); ok && bl.Kind == token.INT {
					if v, err := strconv.Atoi(bl.Value); err == nil {
						vals = append(vals, v)
					}
				}
			}
			if len(vals) >= 8 {
				for _, v := range vals {
					if v >= 1 && v <= 9999 {
						seen[v] = true
					}
				}
			}
			return true
		})
		return nil
	})
	var out []int
	for v := range seen {
		out = append(out, v)
	}
	sort.Ints(out)
	var bs []int
	for v := range bounds {
		bs = append(bs, v)
	}
	sort.Ints(bs)
	return out, bs
}
