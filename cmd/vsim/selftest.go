package main

import (
	"encoding/json"
	"fmt"
	"os"
	"path/filepath"
	"runtime"
	"sync"

	"verif/harness/spec"
)

// selftest proves determinism on a sample: every seed is run three times at
// GOMAXPROCS 1, 4 and 16, 16 processes at a time, and the full event logs and
// results are compared byte for byte. Any difference is exit 2.
func selftest(p *propDef) int {
	build(false)
	defer cleanup()
	seed := seedEnv()
	n := 96
	type out struct {
		i        int
		logs     [3][]byte
		res      [3]*spec.Result
		err      error
		replayed bool
	}
	res := make([]out, n)
	sem := make(chan struct{}, runtime.NumCPU())
	var wg sync.WaitGroup
	for i := 0; i < n; i++ {
		i := i
		wg.Add(1)
		sem <- struct{}{}
		go func() {
			defer wg.Done()
			defer func() { <-sem }()
			s := p.gen(seed, i)
			for k, procs := range []string{"1", "4", "16"} {
				lp := filepath.Join(scratch, fmt.Sprintf("log-%d-%d", i, k))
				r, err := runWorkerEnv(s, lp, "GOMAXPROCS="+procs)
				if err != nil {
					res[i].err = err
					return
				}
				b, _ := os.ReadFile(lp)
				os.Remove(lp)
				res[i].logs[k] = b
				res[i].res[k] = r
			}
			// replay fidelity: the recorded decision list, fed back, must reproduce the same event log
			if multiTask(s) && res[i].res[0] != nil {
				rs := clone(s)
				rs.Decisions = res[i].res[0].Decisions
				if rs.Decisions == nil {
					rs.Decisions = []spec.Decision{}
				}
				lp := filepath.Join(scratch, fmt.Sprintf("log-%d-r", i))
				r, err := runWorkerEnv(rs, lp)
				if err != nil {
					res[i].err = err
					return
				}
				b, _ := os.ReadFile(lp)
				os.Remove(lp)
				if string(b) != string(res[i].logs[0]) || r.LogHash != res[i].res[0].LogHash || r.Status != res[i].res[0].Status {
					res[i].err = fmt.Errorf("replay from the recorded decision list differs from the PRNG-driven run (log %d vs %d bytes, hash %s vs %s)", len(b), len(res[i].logs[0]), r.LogHash, res[i].res[0].LogHash)
					return
				}
				res[i].replayed = true
			}
		}()
	}
	wg.Wait()
	bad := 0
	replays := 0
	var events int
	for i := range res {
		o := res[i]
		if o.err != nil {
			fmt.Printf("selftest: run %d: %v\n", i, o.err)
			bad++
			continue
		}
		events += len(o.logs[0]) + len(canon(o.res[0]))
		if o.replayed {
			replays++
		}
		for k := 1; k < 3; k++ {
			if canon(o.res[k]) != canon(o.res[0]) || string(o.logs[k]) != string(o.logs[0]) || o.res[k].LogHash != o.res[0].LogHash || o.res[k].Status != o.res[0].Status ||
				o.res[k].Steps != o.res[0].Steps || o.res[k].ConflictSig != o.res[0].ConflictSig || len(o.res[k].Decisions) != len(o.res[0].Decisions) {
				fmt.Printf("selftest: run %d differs between repetition 0 and %d (log %d vs %d bytes, hash %s vs %s)\n", i, k, len(o.logs[0]), len(o.logs[k]), o.res[0].LogHash, o.res[k].LogHash)
				bad++
				break
			}
		}
	}
	if bad > 0 {
		fmt.Printf("selftest: %d of %d seeds NOT deterministic\n", bad, n)
		return 2
	}
	fmt.Printf("selftest: %s: %d seeds x 3 repetitions (GOMAXPROCS 1/4/16, %d at a time) identical; %d bytes of event log and result compared; %d multi-task runs replayed from their recorded decision lists with identical event logs\n", p.id, n, runtime.NumCPU(), events, replays)
	return 0
}

// canon renders a worker result without its wall-clock measurements.
func canon(r *spec.Result) string {
	c := *r
	c.RunMs, c.OracleMs = 0, 0
	b, _ := json.Marshal(&c)
	return string(b)
}

// multiTask: the run has several callers under the scheduler (C09 task scripts, or C10 lookups assigned to callers).
func multiTask(s *spec.Spec) bool {
	if len(s.Tasks) > 1 {
		return true
	}
	for _, lk := range s.Lookups {
		if lk.Task > 0 {
			return true
		}
	}
	return false
}
