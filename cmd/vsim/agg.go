package main

import (
	"encoding/json"
	"fmt"
	"os"
	"path/filepath"
	"sort"

	"verif/harness/spec"
)

type agg struct {
	p        *propDef
	n        int
	sigs     map[string]bool
	nontriv  int
	faults   map[string]uint64
	probes   map[string]uint64
	configs  map[string]int
	steps    uint64
	elig     uint64
	switches uint64
	inCall   uint64
	checks   uint64
	opsDone  int
	locs     int
	runMs    int64
	oraMs    int64
	simSpan  float64
	known    map[string]uint64
	samples  []interface{}
	seedsSet map[uint64]bool
}

func newAgg(p *propDef) *agg {
	return &agg{p: p, sigs: map[string]bool{}, faults: map[string]uint64{}, probes: map[string]uint64{}, configs: map[string]int{},
		known: map[string]uint64{}, seedsSet: map[uint64]bool{}}
}

func configName(s *spec.Spec) string {
	switch s.Property {
	case "C09":
		f := s.Config.Faults
		anyF := f.InvalidPanic || f.Stall || f.Evict || f.MapOrder || f.ClockJump
		if len(s.Tasks) == 1 {
			if anyF {
				return "seq-history+invalid-input"
			}
			return "seq-history"
		}
		if anyF {
			return "multi-task+faults/" + s.Config.Policy
		}
		return "multi-task/" + s.Config.Policy
	case "C10":
		f := s.Config.Faults
		if f.ClockJump || f.ZoneChange {
			return "lookups+clock-faults"
		}
		return "lookups-fixed-clock"
	case "C14":
		if len(s.History) == 0 {
			return "step0-only"
		}
		return "fix-history"
	}
	return "?"
}

func (a *agg) add(o outcome) {
	a.n++
	r := o.r
	a.seedsSet[o.seed] = true
	if r.NonTrivial && r.Sig != "" {
		a.sigs[r.Sig] = true
		a.nontriv++
	}
	for k, v := range r.Faults {
		a.faults[k] += v
	}
	for k, v := range r.Probes {
		a.probes[k] += v
	}
	for k, v := range r.KnownHits {
		a.known[k] += v
	}
	a.configs[configName(o.s)]++
	if o.s.Clock.Zone != "" && o.s.Property == "C09" {
		a.faults["named_zone"]++
	}
	if len(o.s.Tasks) >= 9 {
		a.faults["crowd_of_9_to_12_callers"]++
	}
	a.steps += r.Steps
	a.elig += r.Eligible
	a.switches += r.Switches
	a.inCall += r.InCall
	a.checks += r.Checks
	a.opsDone += r.OpsDone
	a.locs += r.Locations
	a.runMs += r.RunMs
	a.oraMs += r.OracleMs
	a.simSpan += r.SimSpanS
	if len(a.samples) < 3 && o.run < 3 {
		sw := r.Decisions
		if len(sw) > 12 {
			sw = sw[:12]
		}
		a.samples = append(a.samples, map[string]interface{}{
			"seed": o.seed, "run": o.run, "spec": o.s, "status": r.Status, "steps": r.Steps, "switches": r.Switches,
			"first_context_switches": sw, "log_hash": r.LogHash,
		})
	}
}

func (a *agg) knownHits() []string {
	var out []string
	ks := loadKnown()
	for k := range a.known {
		for _, kf := range ks {
			if kf.Status == "open" && kf.Property == a.p.id && kf.Class+" "+kf.Key == k {
				out = append(out, kf.What)
			}
		}
	}
	sort.Strings(out)
	return out
}

var wantProbes = map[string][]string{
	"C09": {"mutex_lock", "mutex_contended", "preempt_holding_mutex", "stall_holding_mutex", "global_handoff", "recovered_panic", "published", "shared_read", "fault_step_invalid_panic", "fault_step_evict", "fault_step_flood", "flood_over_1024_distinct"},
	"C10": {"moment_in_current_year", "near_new_year", "slot_contains_jie", "rat_slot", "lichun_day", "clock_jump_between_lookups", "zone_change_between_lookups", "base_not_default", "repeat_pillars_other_clock", "jie_on_full_hour", "sect_argument_other_than_1_or_2", "pillars_of_a_moment_just_before_base", "result_list_mutated_by_caller", "long_session_runs"},
	"C14": {"fix_add_future", "fix_add_before_existing", "fix_add_between", "fix_replace", "fix_remove", "fix_remove_absent", "fix_names_extended", "fix_followup_on_touched_record", "fix_uses_appended_name", "fix_readd_removed_day", "fix_names_renamed_in_place", "fix_add_digit_pattern_at_year_boundary", "fix_add_block", "fix_add_block_longer_than_31_days", "workday_walk_into_recorded_run", "fixes_back_to_back_without_a_query", "fix_names_same_day_twice", "forgotten_label_repaired", "walk_over_unlabelled_record_panicked_and_recovered", "bad_key_recovered", "target_records_not_contiguous", "workday_steps", "salary_checked", "flood_steps", "flood_over_16384_distinct_days"},
}

func (a *agg) write(tier string, seed uint64, wall float64, nviol int, streams int) {
	var warn []string
	for _, k := range wantProbes[a.p.id] {
		if a.probes[k] == 0 && a.faults[k] == 0 {
			warn = append(warn, k)
		}
	}
	if len(warn) > 0 {
		fmt.Printf("vsim: WARNING reach probes stuck at 0: %v\n", warn)
	}
	// fault kinds that are generated as script steps are counted where they executed
	fk := map[string]uint64{}
	for k, v := range a.faults {
		fk[k] = v
	}
	for _, k := range []string{"invalid_panic", "evict", "flood"} {
		if v := a.probes["fault_step_"+k]; v > 0 {
			fk[k] = v
		}
	}
	switch a.p.id {
	case "C09":
		for _, k := range []string{"invalid_panic", "stall", "evict", "map_order", "clock_jump", "flood"} {
			if _, ok := fk[k]; !ok {
				fk[k] = 0
			}
		}
		fk["flood_calls"] = a.probes["flood_calls"]
		if fk["map_order"] == 0 {
			fk["map_order_note"] = 0 // the current tree has no map range loop: nothing to permute
		}
	case "C10":
		for _, k := range []string{"clock_jump", "zone_change"} {
			if _, ok := fk[k]; !ok {
				fk[k] = 0
			}
		}
		fk["named_zone"] = a.probes["process_zone_named"]
		fk["concurrent_callers_run"] = a.probes["concurrent_callers_run"]
		fk["clock_fault_while_another_caller_is_inside_a_lookup"] = a.probes["clock_fault_while_another_caller_is_inside_a_lookup"]
		fk["flood"] = a.probes["long_session_runs"]
		fk["flood_lookups"] = a.probes["lookups_in_long_sessions"]
	case "C14":
		fk["named_zone"] = a.probes["process_zone_named"]
		fk["fixups_back_to_back_without_a_query"] = a.probes["fixes_back_to_back_without_a_query"]
		fk["recovered_panic_between_fixups"] = a.probes["walk_over_unlabelled_record_panicked_and_recovered"]
		fk["malformed_query_recovered"] = a.probes["bad_key_recovered"]
		fk["flood"] = a.probes["flood_steps"]
		fk["flood_queries"] = a.probes["flood_queries"]
	}
	perHour := 0.0
	if wall > 0 {
		perHour = float64(a.n) / wall * 3600
	}
	cov := map[string]interface{}{
		"evaluations":                   a.n,
		"distinct_nontrivial":           len(a.sigs),
		"rule":                          a.p.rule,
		"samples":                       a.samples,
		"nontrivial_runs":               a.nontriv,
		"runs_per_hour":                 int(perHour),
		"seeds_per_hour":                int(perHour),
		"seed_streams":                  streams,
		"scheduling_steps":              a.steps,
		"eligible_points":               a.elig,
		"context_switches":              a.switches,
		"switches_inside_library_calls": a.inCall,
		"oracle_comparisons":            a.checks,
		"operations_executed":           a.opsDone,
		"memory_locations_monitored":    a.locs,
		"fault_kinds_fired":             fk,
		"fault_kinds_note":              faultNote[a.p.id],
		"reach_probes":                  a.probes,
		"probes_stuck_at_zero":          warn,
		"configurations":                a.configs,
		"simulated_time_s":              a.simSpan,
		"worker_cpu_ms":                 map[string]int64{"simulated_runs": a.runMs, "fresh_process_oracles": a.oraMs},
		"components_real":               a.p.real,
		"components_stubbed":            a.p.stubbed,
		"exhaustive":                    false,
	}
	ev := map[string]interface{}{
		"property_id": a.p.id,
		"tier":        tier,
		"seed":        int64(seed),
		"level":       "exploration",
		"coverage":    cov,
		"assumptions": a.p.assume,
		"wall_s":      wall,
		"violations":  nviol,
	}
	b, _ := json.MarshalIndent(ev, "", " ")
	os.MkdirAll(filepath.Join(root, "evidence"), 0755)
	if err := os.WriteFile(filepath.Join(root, "evidence", a.p.id+".json"), b, 0644); err != nil {
		die2("write evidence: %v", err)
	}
}

var faultNote = map[string]string{
	"C09": "invalid_panic = operations with rejected/choking arguments executed and recovered inside scripts; stall = a task frozen at a scheduling point while others run; evict = operations of an evictor task on cold years; clock_jump = the simulated wall clock advanced by 61 s .. 1 day between two calls of a task; map_order = permuted map iterations (0 when the tree has no map range loop); named_zone = runs whose process-local zone has daylight-saving rules; crowd_of_9_to_12_callers = runs with that many concurrent callers; flood = volume faults: one task making flood_calls distinct valid calls of one kind back to back (130 .. 40000 per flood, log-uniform; uncompared load that pushes bounded caches past their capacity) while the witnessed calls go on before, after and beside it",
	"C10": "clock_jump / zone_change = the simulated wall clock or time.Local replaced between two lookups of a run (in runs with concurrent callers: while the other callers are wherever the scheduler left them, clock_fault_while_another_caller_is_inside_a_lookup counts those that landed inside a lookup); named_zone = clocks whose zone has daylight-saving rules; every run additionally starts from a PRNG-chosen clock, zone and per-read tick; flood = volume faults: long sessions of 40 .. 260 lookups in one process (flood_lookups in all), each checked, with the run's clock and zone faults spread over them",
	"C14": "the holiday table's API has one writer, no I/O and no clock; what is injected is: named_zone = runs whose process-local zone has daylight-saving rules; fixups_back_to_back_without_a_query = history steps followed by the next fix-up with no query in between; recovered_panic_between_fixups = a working-day walk over a record without label that panicked and was recovered before the repairing fix-up; malformed_query_recovered = malformed keys whose panic was recovered mid-history; flood = volume faults: flood_queries by-day queries over 200 .. 70000 distinct days (each compared with the model) placed before a fix-up",
}
