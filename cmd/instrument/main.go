// Command instrument copies a lunar-go working tree into a scratch directory
// and inserts the simulation seams described in DESIGN.md Appendix A.
//
//	instrument -src /repo -dst /tmp/scratch -simrt /verif/simrt
//
// Exit status: 0 ok, 2 anything else (unsupported construct, type error, I/O).
// It never decides a property.
package main

import (
	"bytes"
	"encoding/json"
	"flag"
	"fmt"
	"go/ast"
	"go/format"
	"go/importer"
	"go/parser"
	"go/token"
	"go/types"
	"io"
	"os"
	"path/filepath"
	"reflect"
	"sort"
	"strconv"
	"strings"
)

const modPath = "github.com/6tail/lunar-go"

type site struct {
	ID    int    `json:"id"`
	Class string `json:"class"`
	Pos   string `json:"pos"`
	Func  string `json:"func"`
	Expr  string `json:"expr"`
}

var (
	fset      = token.NewFileSet()
	sites     []site
	unsupp    []string
	gset      = map[types.Object]bool{} // G: package-level vars written in some function body
	pkgs      = map[string]*pkgInfo{}   // import path -> info
	stdImp    types.Importer
	srcRoot   string
	classNums = map[string]int{"SYNC": 0, "GLOBAL": 1, "FIELD_W": 2, "FIELD_R": 3, "ELEM": 4, "MAP": 5, "LIST": 6, "CLOCK": 7}
)

type pkgInfo struct {
	path  string
	dir   string
	files []*ast.File
	names []string
	pkg   *types.Package
	info  *types.Info
}

func die(f string, a ...interface{}) {
	fmt.Fprintf(os.Stderr, "instrument: "+f+"\n", a...)
	os.Exit(2)
}

type modImporter struct{}

func (modImporter) Import(path string) (*types.Package, error) {
	if path == modPath || strings.HasPrefix(path, modPath+"/") {
		p, err := load(path)
		if err != nil {
			return nil, err
		}
		return p.pkg, nil
	}
	return stdImp.Import(path)
}

func load(path string) (*pkgInfo, error) {
	if p, ok := pkgs[path]; ok {
		if p.pkg == nil {
			return nil, fmt.Errorf("import cycle through %s", path)
		}
		return p, nil
	}
	rel := strings.TrimPrefix(strings.TrimPrefix(path, modPath), "/")
	dir := filepath.Join(srcRoot, rel)
	p := &pkgInfo{path: path, dir: dir}
	pkgs[path] = p
	ents, err := os.ReadDir(dir)
	if err != nil {
		return nil, err
	}
	for _, e := range ents {
		n := e.Name()
		if e.IsDir() || !strings.HasSuffix(n, ".go") || strings.HasSuffix(n, "_test.go") {
			continue
		}
		f, err := parser.ParseFile(fset, filepath.Join(dir, n), nil, parser.SkipObjectResolution)
		if err != nil {
			return nil, err
		}
		p.files = append(p.files, f)
		p.names = append(p.names, n)
	}
	if len(p.files) == 0 {
		return nil, fmt.Errorf("no go files in %s", dir)
	}
	p.info = &types.Info{
		Types:      map[ast.Expr]types.TypeAndValue{},
		Defs:       map[*ast.Ident]types.Object{},
		Uses:       map[*ast.Ident]types.Object{},
		Selections: map[*ast.SelectorExpr]*types.Selection{},
		Implicits:  map[ast.Node]types.Object{},
	}
	conf := types.Config{Importer: modImporter{}, GoVersion: "go1.18"}
	pkg, err := conf.Check(path, fset, p.files, p.info)
	if err != nil {
		return nil, fmt.Errorf("type-check %s: %v", path, err)
	}
	p.pkg = pkg
	return p, nil
}

func main() {
	src := flag.String("src", "/repo", "lunar-go working tree")
	dst := flag.String("dst", "", "scratch directory (created)")
	simrtDir := flag.String("simrt", "/verif/simrt", "simrt sources to copy in")
	flag.Parse()
	if *dst == "" {
		die("-dst required")
	}
	srcRoot = *src
	stdImp = importer.ForCompiler(fset, "source", nil)

	// 1. copy the tree
	if err := copyTree(*src, *dst); err != nil {
		die("copy: %v", err)
	}
	// 2. find library packages: every directory with non-test go files whose package is not main
	var paths []string
	err := filepath.Walk(*src, func(p string, fi os.FileInfo, err error) error {
		if err != nil {
			return err
		}
		if fi.IsDir() {
			b := fi.Name()
			if p != *src && (strings.HasPrefix(b, ".") || b == "testdata" || b == "simrt" || b == "vendor") {
				return filepath.SkipDir
			}
			ents, _ := os.ReadDir(p)
			has := false
			for _, e := range ents {
				n := e.Name()
				if !e.IsDir() && strings.HasSuffix(n, ".go") && !strings.HasSuffix(n, "_test.go") {
					has = true
				}
			}
			if has {
				rel, _ := filepath.Rel(*src, p)
				ip := modPath
				if rel != "." {
					ip += "/" + filepath.ToSlash(rel)
				}
				paths = append(paths, ip)
			}
		}
		return nil
	})
	if err != nil {
		die("walk: %v", err)
	}
	sort.Strings(paths)
	var lib []*pkgInfo
	for _, ip := range paths {
		p, err := load(ip)
		if err != nil {
			die("%v", err)
		}
		if p.pkg.Name() == "main" {
			continue
		}
		lib = append(lib, p)
	}
	// also library packages reached only through imports
	for _, p := range pkgs {
		found := false
		for _, q := range lib {
			if q == p {
				found = true
			}
		}
		if !found && p.pkg != nil && p.pkg.Name() != "main" {
			lib = append(lib, p)
		}
	}
	sort.Slice(lib, func(i, j int) bool { return lib[i].path < lib[j].path })

	// 3. G
	for _, p := range lib {
		computeG(p)
	}
	// 4. rewrite
	for _, p := range lib {
		for i, f := range p.files {
			r := &rewriter{p: p, file: f, fname: filepath.Join(strings.TrimPrefix(strings.TrimPrefix(p.path, modPath), "/"), p.names[i])}
			r.rewriteFile()
			rel := strings.TrimPrefix(strings.TrimPrefix(p.path, modPath), "/")
			out := filepath.Join(*dst, rel, p.names[i])
			var buf bytes.Buffer
			f.Comments = nil
			stripDocs(f)
			if err := format.Node(&buf, fset, f); err != nil {
				die("print %s: %v", out, err)
			}
			if _, err := parser.ParseFile(token.NewFileSet(), out, buf.Bytes(), 0); err != nil {
				die("instrumented %s does not parse: %v", out, err)
			}
			if err := os.WriteFile(out, buf.Bytes(), 0644); err != nil {
				die("write: %v", err)
			}
		}
	}
	if len(unsupp) > 0 {
		for _, u := range unsupp {
			fmt.Fprintln(os.Stderr, "instrument: unsupported construct:", u)
		}
		os.Exit(2)
	}
	// 5. simrt + site table + go.mod
	sd := filepath.Join(*dst, "simrt")
	os.MkdirAll(sd, 0755)
	ents, err := os.ReadDir(*simrtDir)
	if err != nil {
		die("simrt: %v", err)
	}
	for _, e := range ents {
		if strings.HasSuffix(e.Name(), ".go") && !strings.HasSuffix(e.Name(), "_test.go") {
			b, _ := os.ReadFile(filepath.Join(*simrtDir, e.Name()))
			os.WriteFile(filepath.Join(sd, e.Name()), b, 0644)
		}
	}
	var sb strings.Builder
	sb.WriteString("package simrt\n\nfunc init() {\n\tSites = []SiteInfo{\n")
	for _, s := range sites {
		fmt.Fprintf(&sb, "\t\t{Class: %d, Pos: %q, Func: %q, Expr: %q},\n", classNums[s.Class], s.Pos, s.Func, s.Expr)
	}
	sb.WriteString("\t}\n}\n")
	os.WriteFile(filepath.Join(sd, "zz_sites.go"), []byte(sb.String()), 0644)
	js, _ := json.MarshalIndent(map[string]interface{}{"sites": sites, "G": gNames()}, "", " ")
	os.WriteFile(filepath.Join(*dst, "sites.json"), js, 0644)
	os.WriteFile(filepath.Join(*dst, "go.mod"), []byte("module "+modPath+"\n\ngo 1.18\n"), 0644)
	os.Remove(filepath.Join(*dst, "go.sum"))
	fmt.Printf("instrument: %d packages, %d sites, G=%v\n", len(lib), len(sites), gNames())
}

func gNames() []string {
	var out []string
	for o := range gset {
		out = append(out, o.Pkg().Name()+"."+o.Name())
	}
	sort.Strings(out)
	return out
}

func stripDocs(f *ast.File) {
	f.Doc = nil
	ast.Inspect(f, func(n ast.Node) bool {
		switch x := n.(type) {
		case *ast.FuncDecl:
			x.Doc = nil
		case *ast.GenDecl:
			x.Doc = nil
		case *ast.TypeSpec:
			x.Doc, x.Comment = nil, nil
		case *ast.ValueSpec:
			x.Doc, x.Comment = nil, nil
		case *ast.Field:
			x.Doc, x.Comment = nil, nil
		case *ast.ImportSpec:
			x.Doc, x.Comment = nil, nil
		}
		return true
	})
}

func copyTree(src, dst string) error {
	return filepath.Walk(src, func(p string, fi os.FileInfo, err error) error {
		if err != nil {
			return err
		}
		rel, _ := filepath.Rel(src, p)
		if fi.IsDir() {
			if rel != "." && strings.HasPrefix(fi.Name(), ".") {
				return filepath.SkipDir
			}
			return os.MkdirAll(filepath.Join(dst, rel), 0755)
		}
		if !fi.Mode().IsRegular() {
			return nil
		}
		in, err := os.Open(p)
		if err != nil {
			return err
		}
		defer in.Close()
		out, err := os.Create(filepath.Join(dst, rel))
		if err != nil {
			return err
		}
		defer out.Close()
		_, err = io.Copy(out, in)
		return err
	})
}

// ---------------------------------------------------------------------------
// G

func isPkgVar(o types.Object) bool {
	v, ok := o.(*types.Var)
	if !ok || v.IsField() || v.Pkg() == nil {
		return false
	}
	return v.Parent() == v.Pkg().Scope()
}

func rootVar(info *types.Info, e ast.Expr) types.Object {
	for {
		switch x := e.(type) {
		case *ast.ParenExpr:
			e = x.X
		case *ast.IndexExpr:
			// g[i] = v writes through g only if g is a map/array/slice variable
			e = x.X
		case *ast.SliceExpr:
			e = x.X
		case *ast.SelectorExpr:
			if sel, ok := info.Selections[x]; ok {
				if sel.Kind() != types.FieldVal || sel.Indirect() {
					return nil
				}
				if _, isPtr := info.TypeOf(x.X).Underlying().(*types.Pointer); isPtr {
					return nil
				}
				e = x.X
			} else {
				o := info.Uses[x.Sel]
				if o != nil && isPkgVar(o) {
					return o
				}
				return nil
			}
		case *ast.Ident:
			o := info.Uses[x]
			if o != nil && isPkgVar(o) {
				return o
			}
			return nil
		default:
			return nil
		}
	}
}

func computeG(p *pkgInfo) {
	info := p.info
	mark := func(e ast.Expr) {
		if o := rootVar(info, e); o != nil && !isSyncType(o.Type()) {
			gset[o] = true
		}
	}
	for _, f := range p.files {
		ast.Inspect(f, func(n ast.Node) bool {
			switch x := n.(type) {
			case *ast.AssignStmt:
				if x.Tok != token.DEFINE {
					for _, l := range x.Lhs {
						mark(l)
					}
				}
			case *ast.IncDecStmt:
				mark(x.X)
			case *ast.RangeStmt:
				if x.Tok == token.ASSIGN {
					if x.Key != nil {
						mark(x.Key)
					}
					if x.Value != nil {
						mark(x.Value)
					}
				}
			case *ast.UnaryExpr:
				if x.Op == token.AND {
					mark(x.X)
				}
			case *ast.CallExpr:
				if id, ok := x.Fun.(*ast.Ident); ok && len(x.Args) > 0 {
					if b, ok := info.Uses[id].(*types.Builtin); ok && (b.Name() == "delete" || b.Name() == "copy" || b.Name() == "clear") {
						mark(x.Args[0])
					}
				}
				if se, ok := x.Fun.(*ast.SelectorExpr); ok {
					if sel, ok := info.Selections[se]; ok && sel.Kind() == types.MethodVal {
						// pointer-receiver method on an addressable package-level value
						if fn, ok := sel.Obj().(*types.Func); ok {
							if sig, ok := fn.Type().(*types.Signature); ok && sig.Recv() != nil {
								if _, ptr := sig.Recv().Type().(*types.Pointer); ptr {
									if _, recvIsPtr := info.TypeOf(se.X).Underlying().(*types.Pointer); !recvIsPtr {
										mark(se.X)
									}
								}
							}
						}
					}
				}
			}
			return true
		})
	}
}

// ---------------------------------------------------------------------------
// type helpers

func namedFrom(t types.Type, pkg string) (string, bool) {
	if p, ok := t.(*types.Pointer); ok {
		t = p.Elem()
	}
	n, ok := t.(*types.Named)
	if !ok || n.Obj().Pkg() == nil || n.Obj().Pkg().Path() != pkg {
		return "", false
	}
	return n.Obj().Name(), true
}

func isSyncType(t types.Type) bool {
	if _, ok := namedFrom(t, "sync"); ok {
		return true
	}
	if _, ok := namedFrom(t, "sync/atomic"); ok {
		return true
	}
	return false
}

func isListPtr(t types.Type) bool {
	p, ok := t.(*types.Pointer)
	if !ok {
		return false
	}
	n, ok := namedFrom(p.Elem(), "container/list")
	return ok && n == "List"
}

var syncTypeMap = map[string]string{
	"sync.Mutex": "Mutex", "sync.RWMutex": "RWMutex", "sync.Once": "Once", "sync.Map": "Map", "sync.Pool": "Pool", "sync.WaitGroup": "WaitGroup", "sync.Cond": "Cond", "sync.NewCond": "NewCond",
	"sync/atomic.Value": "AtomicValue", "sync/atomic.Int32": "AtomicInt32", "sync/atomic.Int64": "AtomicInt64", "sync/atomic.Bool": "AtomicBool",
	"sync/atomic.Uint32": "AtomicUint32", "sync/atomic.Uint64": "AtomicUint64", "sync/atomic.Pointer": "AtomicPointer",
}

var syncOK = map[string]bool{"sync.Locker": true}

var listMut = map[string]bool{"PushBack": true, "PushFront": true, "InsertBefore": true, "InsertAfter": true, "Remove": true,
	"MoveToFront": true, "MoveToBack": true, "MoveBefore": true, "MoveAfter": true, "PushBackList": true, "PushFrontList": true, "Init": true}
var listRead = map[string]bool{"Len": true, "Front": true, "Back": true}

// packages whose use inside the library would escape the simulator's control
var unsupportedPkgs = map[string]bool{"math/rand": true, "math/rand/v2": true, "crypto/rand": true, "runtime": true, "os": true,
	"unsafe": true, "os/signal": true, "net": true, "syscall": true, "context": true, "io/ioutil": true, "os/exec": true, "runtime/debug": true}

// ---------------------------------------------------------------------------
// rewriter

const (
	mRd = iota
	mWr
	mAddr
)

type rewriter struct {
	p         *pkgInfo
	file      *ast.File
	fname     string
	fn        string
	usedSimrt bool
	tmp       int
}

func (r *rewriter) info() *types.Info { return r.p.info }

func (r *rewriter) pos(n ast.Node) string {
	return fmt.Sprintf("%s:%d", r.fname, fset.Position(n.Pos()).Line)
}

func (r *rewriter) unsupported(n ast.Node, what string) {
	unsupp = append(unsupp, fmt.Sprintf("%s: %s", r.pos(n), what))
}

func (r *rewriter) newSite(class string, n ast.Node, expr string) ast.Expr {
	id := len(sites)
	sites = append(sites, site{ID: id, Class: class, Pos: r.pos(n), Func: r.fn, Expr: expr})
	return &ast.BasicLit{Kind: token.INT, Value: strconv.Itoa(id)}
}

func (r *rewriter) simrtSel(name string) ast.Expr {
	r.usedSimrt = true
	return &ast.SelectorExpr{X: ast.NewIdent("simrt"), Sel: ast.NewIdent(name)}
}

// wrapPtr builds *simrt.R(&e, site) / *simrt.W(&e, site)
func (r *rewriter) wrapPtr(e ast.Expr, mode int, class string, orig ast.Node, name string) ast.Expr {
	fn := "R"
	if mode == mWr {
		fn = "W"
	}
	call := &ast.CallExpr{Fun: r.simrtSel(fn), Args: []ast.Expr{&ast.UnaryExpr{Op: token.AND, X: e}, r.newSite(class, orig, name)}}
	return &ast.ParenExpr{X: &ast.StarExpr{X: call}}
}

func (r *rewriter) rewriteFile() {
	info := r.info()
	// pass A: in-place replacement of sync types, clock functions, atomics; detection of unsupported packages
	ast.Inspect(r.file, func(n ast.Node) bool {
		switch x := n.(type) {
		case *ast.SelectorExpr:
			id, ok := x.X.(*ast.Ident)
			if !ok {
				return true
			}
			pn, ok := info.Uses[id].(*types.PkgName)
			if !ok {
				return true
			}
			path := pn.Imported().Path()
			full := path + "." + x.Sel.Name
			switch {
			case path == "sync":
				if to, ok := syncTypeMap[full]; ok {
					x.X, x.Sel = ast.NewIdent("simrt"), ast.NewIdent(to)
					r.usedSimrt = true
				} else if !syncOK[full] {
					r.unsupported(x, full+" (only Mutex, RWMutex, Once, Map, Pool, WaitGroup, Cond are simulated)")
				}
			case path == "sync/atomic":
				if to, ok := syncTypeMap[full]; ok {
					x.X, x.Sel = ast.NewIdent("simrt"), ast.NewIdent(to)
					r.usedSimrt = true
				} else if _, isFn := info.Uses[x.Sel].(*types.Func); isFn && atomicFn(x.Sel.Name) {
					x.X, x.Sel = ast.NewIdent("simrt"), ast.NewIdent("Atomic"+x.Sel.Name)
					r.usedSimrt = true
				} else {
					r.unsupported(x, full+" (not simulated)")
				}
			case path == "time":
				switch x.Sel.Name {
				case "Now", "Since", "Until", "Sleep":
					x.X = ast.NewIdent("simrt")
					r.usedSimrt = true
					sites = append(sites, site{ID: len(sites), Class: "CLOCK", Pos: r.pos(x), Func: "", Expr: "time." + x.Sel.Name})
				case "After", "AfterFunc", "NewTimer", "NewTicker", "Tick":
					r.unsupported(x, full+" (timers are not simulated)")
				}
			case path == "runtime" && (x.Sel.Name == "GOMAXPROCS" || x.Sel.Name == "NumCPU" || x.Sel.Name == "Gosched" || x.Sel.Name == "NumGoroutine"):
				x.X = ast.NewIdent("simrt")
				r.usedSimrt = true
			case unsupportedPkgs[path]:
				r.unsupported(x, full+" (package outside the simulator's control)")
			}
		}
		return true
	})
	// pass B: accesses
	for _, d := range r.file.Decls {
		switch x := d.(type) {
		case *ast.FuncDecl:
			r.fn = x.Name.Name
			if x.Recv != nil && len(x.Recv.List) > 0 {
				r.fn = types.ExprString(x.Recv.List[0].Type) + "." + x.Name.Name
			}
			r.fn = r.p.pkg.Name() + "." + strings.TrimPrefix(r.fn, "*")
			if x.Body != nil {
				r.block(x.Body)
			}
		case *ast.GenDecl:
			if x.Tok == token.VAR {
				r.fn = r.p.pkg.Name() + ".<init>"
				for _, s := range x.Specs {
					vs := s.(*ast.ValueSpec)
					for i := range vs.Values {
						vs.Values[i] = r.expr(vs.Values[i], mRd)
					}
				}
			}
		}
	}
	// pass C: remaining channel TYPES (fields, parameters, variables, conversions)
	r.replaceChanTypes(r.file)
	// imports: add simrt, drop imports that are no longer referenced
	used := map[string]bool{}
	ast.Inspect(r.file, func(n ast.Node) bool {
		if id, ok := n.(*ast.Ident); ok {
			if pn, ok := info.Uses[id].(*types.PkgName); ok {
				used[pn.Imported().Path()] = true
			}
		}
		return true
	})
	for _, d := range r.file.Decls {
		gd, ok := d.(*ast.GenDecl)
		if !ok || gd.Tok != token.IMPORT {
			continue
		}
		var keep []ast.Spec
		for _, s := range gd.Specs {
			is := s.(*ast.ImportSpec)
			path, _ := strconv.Unquote(is.Path.Value)
			if is.Name != nil && (is.Name.Name == "_" || is.Name.Name == ".") {
				keep = append(keep, s)
				continue
			}
			if used[path] {
				keep = append(keep, s)
			}
		}
		gd.Specs = keep
	}
	if r.usedSimrt {
		spec := &ast.ImportSpec{Path: &ast.BasicLit{Kind: token.STRING, Value: strconv.Quote(modPath + "/simrt")}}
		added := false
		for _, d := range r.file.Decls {
			if gd, ok := d.(*ast.GenDecl); ok && gd.Tok == token.IMPORT {
				gd.Specs = append(gd.Specs, spec)
				if len(gd.Specs) > 1 && !gd.Lparen.IsValid() {
					gd.Lparen = gd.Pos()
				}
				added = true
				break
			}
		}
		if !added {
			gd := &ast.GenDecl{Tok: token.IMPORT, Specs: []ast.Spec{spec}}
			r.file.Decls = append([]ast.Decl{gd}, r.file.Decls...)
		}
	}
	// drop now-empty import decls
	var decls []ast.Decl
	for _, d := range r.file.Decls {
		if gd, ok := d.(*ast.GenDecl); ok && gd.Tok == token.IMPORT && len(gd.Specs) == 0 {
			continue
		}
		decls = append(decls, d)
	}
	r.file.Decls = decls
}

// mutatorName: method names of standard-library containers and buffers that modify their receiver.
func mutatorName(n string) bool {
	for _, p := range []string{"Write", "Reset", "Grow", "Truncate", "Read", "Unread", "Next", "Set", "Add", "Push", "Pop", "Insert", "Remove", "Delete",
		"Clear", "Init", "Swap", "Store", "Put", "Append", "Move", "Seek", "Scan", "Unmarshal", "Decode", "Fix", "Sort", "Shuffle", "Seed", "Lock", "Unlock", "Do"} {
		if strings.HasPrefix(n, p) {
			return true
		}
	}
	return false
}

func atomicFn(n string) bool {
	for _, p := range []string{"Load", "Store", "Add", "Swap", "CompareAndSwap"} {
		if strings.HasPrefix(n, p) {
			switch strings.TrimPrefix(n, p) {
			case "Int32", "Int64", "Uint32", "Uint64", "Pointer":
				if p == "Add" && strings.HasSuffix(n, "Pointer") {
					return false
				}
				if p == "Swap" && (strings.HasSuffix(n, "Pointer") || strings.HasSuffix(n, "Uint32") || strings.HasSuffix(n, "Uint64")) {
					return false
				}
				return true
			}
		}
	}
	return false
}

// ---------------------------------------------------------------------------
// statements

func (r *rewriter) block(b *ast.BlockStmt) {
	if b == nil {
		return
	}
	for i, s := range b.List {
		b.List[i] = r.stmt(s)
	}
}

func (r *rewriter) stmts(l []ast.Stmt) {
	for i, s := range l {
		l[i] = r.stmt(s)
	}
}

func (r *rewriter) stmt(s ast.Stmt) ast.Stmt {
	switch x := s.(type) {
	case nil:
		return nil
	case *ast.AssignStmt:
		if len(x.Lhs) == 2 && len(x.Rhs) == 1 {
			if u, ok := unparen(x.Rhs[0]).(*ast.UnaryExpr); ok && u.Op == token.ARROW {
				x.Rhs[0] = &ast.CallExpr{Fun: &ast.SelectorExpr{X: r.chanOf(u.X), Sel: ast.NewIdent("Recv2")}}
				if x.Tok != token.DEFINE {
					for i := range x.Lhs {
						if id, ok := x.Lhs[i].(*ast.Ident); ok && id.Name == "_" {
							continue
						}
						x.Lhs[i] = r.expr(x.Lhs[i], mWr)
					}
				}
				return x
			}
		}
		for i := range x.Rhs {
			x.Rhs[i] = r.expr(x.Rhs[i], mRd)
		}
		if x.Tok != token.DEFINE {
			for i := range x.Lhs {
				if id, ok := x.Lhs[i].(*ast.Ident); ok && id.Name == "_" {
					continue
				}
				x.Lhs[i] = r.expr(x.Lhs[i], mWr)
			}
		}
	case *ast.IncDecStmt:
		x.X = r.expr(x.X, mWr)
	case *ast.ExprStmt:
		x.X = r.expr(x.X, mRd)
	case *ast.ReturnStmt:
		for i := range x.Results {
			x.Results[i] = r.expr(x.Results[i], mRd)
		}
	case *ast.IfStmt:
		x.Init = r.stmt(x.Init)
		x.Cond = r.expr(x.Cond, mRd)
		r.block(x.Body)
		x.Else = r.stmt(x.Else)
	case *ast.ForStmt:
		x.Init = r.stmt(x.Init)
		if x.Cond != nil {
			x.Cond = r.expr(x.Cond, mRd)
		}
		x.Post = r.stmt(x.Post)
		r.block(x.Body)
	case *ast.RangeStmt:
		return r.rangeStmt(x)
	case *ast.SwitchStmt:
		x.Init = r.stmt(x.Init)
		if x.Tag != nil {
			x.Tag = r.expr(x.Tag, mRd)
		}
		r.block(x.Body)
	case *ast.TypeSwitchStmt:
		x.Init = r.stmt(x.Init)
		switch a := x.Assign.(type) {
		case *ast.AssignStmt:
			if ta, ok := a.Rhs[0].(*ast.TypeAssertExpr); ok {
				ta.X = r.expr(ta.X, mRd)
			}
		case *ast.ExprStmt:
			if ta, ok := a.X.(*ast.TypeAssertExpr); ok {
				ta.X = r.expr(ta.X, mRd)
			}
		}
		r.block(x.Body)
	case *ast.CaseClause:
		for i := range x.List {
			x.List[i] = r.expr(x.List[i], mRd)
		}
		r.stmts(x.Body)
	case *ast.BlockStmt:
		r.block(x)
	case *ast.DeclStmt:
		if gd, ok := x.Decl.(*ast.GenDecl); ok && gd.Tok == token.VAR {
			for _, sp := range gd.Specs {
				vs := sp.(*ast.ValueSpec)
				for i := range vs.Values {
					vs.Values[i] = r.expr(vs.Values[i], mRd)
				}
			}
		}
	case *ast.DeferStmt:
		x.Call = r.expr(x.Call, mRd).(*ast.CallExpr)
	case *ast.GoStmt:
		// go f(a, b)  ->  { t0, t1 := a, b; simrt.Go(func() { f(t0, t1) }) }   (arguments are evaluated now, as Go does)
		call := r.expr(x.Call, mRd).(*ast.CallExpr)
		var pre []ast.Stmt
		for i, a := range call.Args {
			if _, isLit := a.(*ast.BasicLit); isLit {
				continue
			}
			r.tmp++
			id := ast.NewIdent(fmt.Sprintf("simGoArg%d", r.tmp))
			pre = append(pre, &ast.AssignStmt{Lhs: []ast.Expr{id}, Tok: token.DEFINE, Rhs: []ast.Expr{a}})
			call.Args[i] = ast.NewIdent(id.Name)
		}
		body := &ast.BlockStmt{List: []ast.Stmt{&ast.ExprStmt{X: call}}}
		goCall := &ast.ExprStmt{X: &ast.CallExpr{Fun: r.simrtSel("Go"), Args: []ast.Expr{&ast.FuncLit{Type: &ast.FuncType{Params: &ast.FieldList{}}, Body: body}}}}
		return &ast.BlockStmt{List: append(pre, goCall)}
	case *ast.LabeledStmt:
		x.Stmt = r.stmt(x.Stmt)
	case *ast.BranchStmt, *ast.EmptyStmt:
	case *ast.SendStmt:
		ch := r.chanOf(x.Chan)
		v := r.expr(x.Value, mRd)
		return &ast.ExprStmt{X: &ast.CallExpr{Fun: &ast.SelectorExpr{X: ch, Sel: ast.NewIdent("Send")}, Args: []ast.Expr{v}}}
	case *ast.SelectStmt:
		return r.selectStmt(x)
	default:
		r.unsupported(s, fmt.Sprintf("statement %T", s))
	}
	return s
}

func (r *rewriter) rangeStmt(x *ast.RangeStmt) ast.Stmt {
	info := r.info()
	t := info.TypeOf(x.X)
	if _, isChan := t.Underlying().(*types.Chan); isChan {
		// for v := range ch  ->  for { v, ok := ch.Recv2(); if !ok { break }; body }
		r.tmp++
		okId := ast.NewIdent(fmt.Sprintf("simOk%d", r.tmp))
		var lhs ast.Expr = ast.NewIdent("_")
		tok := token.DEFINE
		if x.Key != nil {
			lhs = x.Key
			if x.Tok == token.ASSIGN {
				lhs = r.expr(x.Key, mWr)
			}
		}
		var pre []ast.Stmt
		recv := &ast.CallExpr{Fun: &ast.SelectorExpr{X: r.chanOf(x.X), Sel: ast.NewIdent("Recv2")}}
		if x.Tok == token.ASSIGN && x.Key != nil {
			pre = append(pre, &ast.DeclStmt{Decl: &ast.GenDecl{Tok: token.VAR, Specs: []ast.Spec{&ast.ValueSpec{Names: []*ast.Ident{okId}, Type: ast.NewIdent("bool")}}}})
			tok = token.ASSIGN
		}
		pre = append(pre, &ast.AssignStmt{Lhs: []ast.Expr{lhs, okId}, Tok: tok, Rhs: []ast.Expr{recv}})
		pre = append(pre, &ast.IfStmt{Cond: &ast.UnaryExpr{Op: token.NOT, X: ast.NewIdent(okId.Name)}, Body: &ast.BlockStmt{List: []ast.Stmt{&ast.BranchStmt{Tok: token.BREAK}}}})
		r.block(x.Body)
		return &ast.ForStmt{Body: &ast.BlockStmt{List: append(pre, x.Body)}}
	}
	_, isMap := t.Underlying().(*types.Map)
	if !isMap {
		x.X = r.expr(x.X, mRd)
		if x.Tok == token.ASSIGN {
			if x.Key != nil {
				x.Key = r.expr(x.Key, mWr)
			}
			if x.Value != nil {
				x.Value = r.expr(x.Value, mWr)
			}
		}
		r.block(x.Body)
		return x
	}
	// for k, v := range m  ->  for _, kv := range simrt.MapPairs(m, site) { k, v := kv.K, kv.V; body }
	name := r.describe(x.X) + "{}"
	m := r.expr(x.X, mRd)
	r.tmp++
	kv := ast.NewIdent(fmt.Sprintf("simKV%d", r.tmp))
	call := &ast.CallExpr{Fun: r.simrtSel("MapPairs"), Args: []ast.Expr{m, r.newSite("MAP", x, name)}}
	var pre []ast.Stmt
	blank := func(e ast.Expr) bool {
		if e == nil {
			return true
		}
		id, ok := e.(*ast.Ident)
		return ok && id.Name == "_"
	}
	var lhs, rhs []ast.Expr
	if !blank(x.Key) {
		k := x.Key
		if x.Tok == token.ASSIGN {
			k = r.expr(k, mWr)
		}
		lhs = append(lhs, k)
		rhs = append(rhs, &ast.SelectorExpr{X: kv, Sel: ast.NewIdent("K")})
	}
	if !blank(x.Value) {
		v := x.Value
		if x.Tok == token.ASSIGN {
			v = r.expr(v, mWr)
		}
		lhs = append(lhs, v)
		rhs = append(rhs, &ast.SelectorExpr{X: kv, Sel: ast.NewIdent("V")})
	}
	var keyId ast.Expr = ast.NewIdent("_")
	if len(lhs) > 0 {
		pre = append(pre, &ast.AssignStmt{Lhs: lhs, Tok: x.Tok, Rhs: rhs})
		keyId = kv
	}
	r.block(x.Body)
	// the range variables live in a scope OUTSIDE the body block (the body may shadow them: `v := v`)
	body := &ast.BlockStmt{List: append(pre, x.Body)}
	out := &ast.RangeStmt{Key: ast.NewIdent("_"), Value: keyId, Tok: token.DEFINE, X: call, Body: body}
	if len(lhs) == 0 {
		out.Key, out.Value, out.Tok = nil, nil, token.ILLEGAL
	}
	return out
}

// chanOf rewrites a channel-valued expression for use as the receiver of a simulated channel operation. A NAMED
// channel type (`type pool chan T`, possibly with methods) is turned into `type pool struct{ C *simrt.Chan[T] }`
// by pass C, so such an operand is unwrapped with `.C`.
func (r *rewriter) chanOf(e ast.Expr) ast.Expr {
	t := r.info().TypeOf(e)
	out := r.expr(e, mRd)
	if isNamedChan(t) {
		return &ast.SelectorExpr{X: out, Sel: ast.NewIdent("C")}
	}
	return out
}

func isNamedChan(t types.Type) bool {
	n, ok := t.(*types.Named)
	if !ok {
		return false
	}
	_, isChan := n.Underlying().(*types.Chan)
	return isChan
}

// selectStmt rewrites
//
//	select { case v, ok := <-a: A; case b <- x: B; default: D }
//
// into
//
//	{ s0 := simrt.NewSlot(a); switch simrt.Select(true, s0.Recv(), simrt.SendCase(b, x)) {
//	  case 0: v, ok := s0.V, s0.Ok; A;  case 1: B;  default: D } }
//
// (channel and value expressions are evaluated once, in source order, as Go does).
func (r *rewriter) selectStmt(x *ast.SelectStmt) ast.Stmt {
	var pre []ast.Stmt
	var cases []ast.Expr
	var clauses []ast.Stmt
	hasDefault := false
	idx := 0
	for _, cl := range x.Body.List {
		cc := cl.(*ast.CommClause)
		r.stmts(cc.Body)
		if cc.Comm == nil {
			hasDefault = true
			clauses = append(clauses, &ast.CaseClause{List: nil, Body: cc.Body})
			continue
		}
		var body []ast.Stmt
		switch c := cc.Comm.(type) {
		case *ast.SendStmt:
			cases = append(cases, &ast.CallExpr{Fun: r.simrtSel("SendCase"), Args: []ast.Expr{r.chanOf(c.Chan), r.expr(c.Value, mRd)}})
		case *ast.ExprStmt, *ast.AssignStmt:
			var recv *ast.UnaryExpr
			var lhs []ast.Expr
			tok := token.DEFINE
			if es, ok := c.(*ast.ExprStmt); ok {
				recv, _ = unparen(es.X).(*ast.UnaryExpr)
			} else {
				as := c.(*ast.AssignStmt)
				recv, _ = unparen(as.Rhs[0]).(*ast.UnaryExpr)
				lhs, tok = as.Lhs, as.Tok
			}
			if recv == nil || recv.Op != token.ARROW {
				r.unsupported(cc, "select clause that is not a send or a receive")
				continue
			}
			r.tmp++
			slot := fmt.Sprintf("simSlot%d", r.tmp)
			pre = append(pre, &ast.AssignStmt{Lhs: []ast.Expr{ast.NewIdent(slot)}, Tok: token.DEFINE,
				Rhs: []ast.Expr{&ast.CallExpr{Fun: r.simrtSel("NewSlot"), Args: []ast.Expr{r.chanOf(recv.X)}}}})
			cases = append(cases, &ast.CallExpr{Fun: &ast.SelectorExpr{X: ast.NewIdent(slot), Sel: ast.NewIdent("Recv")}})
			if len(lhs) > 0 {
				rhs := []ast.Expr{&ast.SelectorExpr{X: ast.NewIdent(slot), Sel: ast.NewIdent("V")}}
				if len(lhs) == 2 {
					rhs = append(rhs, &ast.SelectorExpr{X: ast.NewIdent(slot), Sel: ast.NewIdent("Ok")})
				}
				if tok != token.DEFINE {
					for i := range lhs {
						if id, ok := lhs[i].(*ast.Ident); ok && id.Name == "_" {
							continue
						}
						lhs[i] = r.expr(lhs[i], mWr)
					}
				}
				allBlank := true
				for _, l := range lhs {
					if id, ok := l.(*ast.Ident); !ok || id.Name != "_" {
						allBlank = false
					}
				}
				if allBlank {
					tok = token.ASSIGN
				}
				body = append(body, &ast.AssignStmt{Lhs: lhs, Tok: tok, Rhs: rhs})
			}
		}
		clauses = append(clauses, &ast.CaseClause{List: []ast.Expr{&ast.BasicLit{Kind: token.INT, Value: strconv.Itoa(idx)}}, Body: append(body, cc.Body...)})
		idx++
	}
	def := "false"
	if hasDefault {
		def = "true"
	}
	sel := &ast.CallExpr{Fun: r.simrtSel("Select"), Args: append([]ast.Expr{ast.NewIdent(def)}, cases...)}
	sw := &ast.SwitchStmt{Tag: sel, Body: &ast.BlockStmt{List: clauses}}
	return &ast.BlockStmt{List: append(pre, sw)}
}

// replaceChanTypes turns every remaining `chan T` type expression into *simrt.Chan[T].
func (r *rewriter) replaceChanTypes(n ast.Node) {
	var visit func(v reflect.Value)
	exprT := reflect.TypeOf((*ast.Expr)(nil)).Elem()
	conv := func(e ast.Expr) (ast.Expr, bool) {
		ct, ok := e.(*ast.ChanType)
		if !ok {
			return e, false
		}
		return &ast.StarExpr{X: &ast.IndexExpr{X: r.simrtSel("Chan"), Index: ct.Value}}, true
	}
	seen := map[uintptr]bool{}
	visit = func(v reflect.Value) {
		switch v.Kind() {
		case reflect.Interface:
			if v.IsNil() {
				return
			}
			if v.Type() == exprT && v.CanSet() {
				for {
					ne, changed := conv(v.Interface().(ast.Expr))
					if !changed {
						break
					}
					v.Set(reflect.ValueOf(ne))
				}
			}
			visit(v.Elem())
		case reflect.Ptr:
			if v.IsNil() || seen[v.Pointer()] {
				return
			}
			if _, isObj := v.Interface().(*ast.Object); isObj {
				return
			}
			seen[v.Pointer()] = true
			visit(v.Elem())
		case reflect.Struct:
			for i := 0; i < v.NumField(); i++ {
				visit(v.Field(i))
			}
		case reflect.Slice:
			for i := 0; i < v.Len(); i++ {
				visit(v.Index(i))
			}
		}
	}
	// named channel types first: type pool chan T  ->  type pool struct{ C *simrt.Chan[T] }
	ast.Inspect(n, func(nd ast.Node) bool {
		ts, ok := nd.(*ast.TypeSpec)
		if !ok {
			return true
		}
		if ct, ok := ts.Type.(*ast.ChanType); ok {
			ts.Type = &ast.StructType{Fields: &ast.FieldList{List: []*ast.Field{{
				Names: []*ast.Ident{ast.NewIdent("C")},
				Type:  &ast.StarExpr{X: &ast.IndexExpr{X: r.simrtSel("Chan"), Index: ct.Value}},
			}}}}
		}
		return true
	})
	visit(reflect.ValueOf(n))
}

// ---------------------------------------------------------------------------
// expressions

func (r *rewriter) isTypeOrConst(e ast.Expr) bool {
	info := r.info()
	if tv, ok := info.Types[e]; ok {
		if tv.IsType() || tv.Value != nil || tv.IsBuiltin() || tv.IsNil() {
			return true
		}
	}
	if id, ok := e.(*ast.Ident); ok {
		switch info.Uses[id].(type) {
		case *types.TypeName, *types.Const, *types.Nil, *types.Builtin, *types.Func, *types.PkgName:
			return true
		}
	}
	return false
}

func (r *rewriter) addressable(e ast.Expr) bool {
	info := r.info()
	switch x := e.(type) {
	case *ast.ParenExpr:
		return r.addressable(x.X)
	case *ast.Ident:
		_, ok := info.Uses[x].(*types.Var)
		if !ok {
			_, ok = info.Defs[x].(*types.Var)
		}
		return ok
	case *ast.StarExpr:
		return true
	case *ast.SelectorExpr:
		if sel, ok := info.Selections[x]; ok {
			if sel.Kind() != types.FieldVal {
				return false
			}
			if sel.Indirect() {
				return true
			}
			if _, ok := info.TypeOf(x.X).Underlying().(*types.Pointer); ok {
				return true
			}
			return r.addressable(x.X)
		}
		_, ok := info.Uses[x.Sel].(*types.Var)
		return ok
	case *ast.IndexExpr:
		switch t := info.TypeOf(x.X).Underlying().(type) {
		case *types.Slice:
			return true
		case *types.Pointer:
			return true
		case *types.Array:
			_ = t
			return r.addressable(x.X)
		}
		return false
	}
	return false
}

// describe gives a position-independent name for an accessed location.
func (r *rewriter) describe(e ast.Expr) string {
	info := r.info()
	switch x := e.(type) {
	case *ast.ParenExpr:
		return r.describe(x.X)
	case *ast.Ident:
		o := info.Uses[x]
		if o == nil {
			o = info.Defs[x]
		}
		if o != nil && isPkgVar(o) {
			return o.Pkg().Name() + "." + o.Name()
		}
		if o != nil {
			return "local " + types.TypeString(o.Type(), func(p *types.Package) string { return p.Name() })
		}
		return x.Name
	case *ast.SelectorExpr:
		if sel, ok := info.Selections[x]; ok {
			t := sel.Recv()
			if p, ok := t.(*types.Pointer); ok {
				t = p.Elem()
			}
			return types.TypeString(t, func(p *types.Package) string { return p.Name() }) + "." + x.Sel.Name
		}
		if o := info.Uses[x.Sel]; o != nil && o.Pkg() != nil {
			return o.Pkg().Name() + "." + o.Name()
		}
	case *ast.IndexExpr:
		return r.describe(x.X) + "[]"
	case *ast.StarExpr:
		return "*" + r.describe(x.X)
	case *ast.CallExpr:
		return "result of " + types.ExprString(x.Fun)
	}
	if t := info.TypeOf(e); t != nil {
		return "value " + types.TypeString(t, func(p *types.Package) string { return p.Name() })
	}
	return "?"
}

// isFieldOrG: e is (rooted at) a struct field or a G variable: worth tracking element reads
func (r *rewriter) sharedBase(e ast.Expr) bool {
	info := r.info()
	switch x := e.(type) {
	case *ast.ParenExpr:
		return r.sharedBase(x.X)
	case *ast.Ident:
		o := info.Uses[x]
		return o != nil && gset[o]
	case *ast.SelectorExpr:
		if sel, ok := info.Selections[x]; ok {
			return sel.Kind() == types.FieldVal
		}
		o := info.Uses[x.Sel]
		return o != nil && gset[o]
	case *ast.IndexExpr:
		return r.sharedBase(x.X)
	case *ast.SliceExpr:
		return r.sharedBase(x.X)
	}
	return false
}

// neverWrittenGlobal: e is a package-level variable outside G
func (r *rewriter) neverWrittenGlobal(e ast.Expr) bool {
	info := r.info()
	switch x := e.(type) {
	case *ast.ParenExpr:
		return r.neverWrittenGlobal(x.X)
	case *ast.Ident:
		o := info.Uses[x]
		return o != nil && isPkgVar(o) && !gset[o]
	case *ast.SelectorExpr:
		if _, ok := info.Selections[x]; ok {
			return false
		}
		o := info.Uses[x.Sel]
		return o != nil && isPkgVar(o) && !gset[o]
	}
	return false
}

func isStructVal(t types.Type) bool {
	if t == nil {
		return false
	}
	_, ok := t.Underlying().(*types.Struct)
	return ok
}

func (r *rewriter) expr(e ast.Expr, mode int) ast.Expr {
	if e == nil {
		return nil
	}
	info := r.info()
	if r.isTypeOrConst(e) {
		return e
	}
	switch x := e.(type) {
	case *ast.Ident:
		o := info.Uses[x]
		if o != nil && gset[o] && !isSyncType(o.Type()) && mode != mAddr {
			return r.wrapPtr(x, mode, "GLOBAL", x, r.describe(x))
		}
		return x
	case *ast.BasicLit:
		return x
	case *ast.ParenExpr:
		x.X = r.expr(x.X, mode)
		return x
	case *ast.FuncLit:
		r.block(x.Body)
		return x
	case *ast.SelectorExpr:
		if sel, ok := info.Selections[x]; ok {
			orig := x.X
			baseT := info.TypeOf(orig)
			switch sel.Kind() {
			case types.FieldVal:
				name := r.describe(x)
				addr := r.addressable(x)
				if isStructVal(baseT) {
					x.X = r.expr(orig, mAddr)
				} else {
					x.X = r.expr(orig, mRd)
				}
				if mode == mAddr || !addr || isSyncType(info.TypeOf(x)) {
					return x
				}
				cls := "FIELD_R"
				if mode == mWr {
					cls = "FIELD_W"
				}
				return r.wrapPtr(x, mode, cls, x, name)
			case types.MethodVal:
				if isStructVal(baseT) {
					// method call on a struct VALUE that lives in a field or a written package variable
					// (e.g. a shared strings.Builder / bytes.Buffer scratch): the callee is not instrumented,
					// so record the call itself as a read (value receiver) or write (pointer receiver) of it
					// ... but only for types defined OUTSIDE the library: the library's own methods are
					// instrumented themselves (their field accesses are tracked, their locks give the ordering);
					// treating `memo.load(k)` on a mutex-protected library struct as a write would be a false race
					foreign := false
					if fn, ok := sel.Obj().(*types.Func); ok && fn.Pkg() != nil {
						pp := fn.Pkg().Path()
						// (methods promoted from an embedded sync.Mutex / RWMutex / atomic value are the simulated
						// primitives themselves, not data accesses)
						foreign = pp != modPath && !strings.HasPrefix(pp, modPath+"/") && pp != "sync" && pp != "sync/atomic"
					}
					if foreign && !isSyncType(baseT) && r.addressable(orig) && r.sharedBase(orig) {
						ptrRecv := false
						if fn, ok := sel.Obj().(*types.Func); ok {
							if sig, ok := fn.Type().(*types.Signature); ok && sig.Recv() != nil {
								_, ptrRecv = sig.Recv().Type().(*types.Pointer)
							}
						}
						name := r.describe(orig)
						cls, fnName := "FIELD_R", "R"
						// a pointer receiver alone does not make a call a write ((*strings.Builder).String,
						// (*bytes.Buffer).Len read only): count it as a write only if the method name says so
						if ptrRecv && mutatorName(x.Sel.Name) {
							cls, fnName = "FIELD_W", "W"
						}
						if _, isSel := unparen(orig).(*ast.SelectorExpr); !isSel || r.info().Selections[unparen(orig).(*ast.SelectorExpr)] == nil {
							cls = "GLOBAL"
						}
						inner := r.expr(orig, mAddr)
						x.X = &ast.CallExpr{Fun: r.simrtSel(fnName), Args: []ast.Expr{&ast.UnaryExpr{Op: token.AND, X: inner}, r.newSite(cls, orig, name)}}
						return x
					}
					x.X = r.expr(orig, mAddr)
				} else {
					x.X = r.expr(orig, mRd)
				}
				return x
			default:
				return x
			}
		}
		// qualified identifier
		o := info.Uses[x.Sel]
		if o != nil && gset[o] && !isSyncType(o.Type()) && mode != mAddr {
			return r.wrapPtr(x, mode, "GLOBAL", x, r.describe(x))
		}
		return x
	case *ast.IndexExpr:
		bt := info.TypeOf(x.X)
		if bt == nil {
			return x
		}
		switch bt.Underlying().(type) {
		case *types.Map:
			name := r.describe(x.X) + "{}"
			skip := r.neverWrittenGlobal(x.X)
			orig := x.X
			x.X = r.expr(x.X, mRd)
			x.Index = r.expr(x.Index, mRd)
			if !skip {
				fn := "MR"
				if mode == mWr {
					fn = "MW"
				}
				x.X = &ast.CallExpr{Fun: r.simrtSel(fn), Args: []ast.Expr{x.X, r.newSite("MAP", orig, name)}}
			}
			return x
		case *types.Slice, *types.Pointer:
			name := r.describe(x.X) + "[]"
			// element reads are tracked for every slice except never-written package tables: a local slice
			// variable may alias shared memory (a sub-slice of a cached table, a shared workspace)
			shared := !r.neverWrittenGlobal(x.X)
			x.X = r.expr(x.X, mRd)
			x.Index = r.expr(x.Index, mRd)
			if mode == mWr || (mode == mRd && shared) {
				return r.wrapPtr(x, mode, "ELEM", x, name)
			}
			return x
		case *types.Array:
			name := r.describe(x.X) + "[]"
			shared := r.sharedBase(x.X)
			addr := r.addressable(x)
			x.X = r.expr(x.X, mAddr)
			x.Index = r.expr(x.Index, mRd)
			if addr && shared && mode != mAddr {
				return r.wrapPtr(x, mode, "ELEM", x, name)
			}
			return x
		default: // string, type parameters
			x.X = r.expr(x.X, mRd)
			x.Index = r.expr(x.Index, mRd)
			return x
		}
	case *ast.SliceExpr:
		if _, isArr := info.TypeOf(x.X).Underlying().(*types.Array); isArr {
			x.X = r.expr(x.X, mAddr)
		} else {
			x.X = r.expr(x.X, mRd)
		}
		x.Low = r.expr(x.Low, mRd)
		x.High = r.expr(x.High, mRd)
		x.Max = r.expr(x.Max, mRd)
		return x
	case *ast.StarExpr:
		pt := info.TypeOf(x.X)
		name := "*" + r.describe(x.X)
		x.X = r.expr(x.X, mRd)
		if pt != nil && mode != mAddr {
			if p, ok := pt.Underlying().(*types.Pointer); ok && !isStructVal(p.Elem()) && !isSyncType(p.Elem()) {
				fn := "R"
				if mode == mWr {
					fn = "W"
				}
				x.X = &ast.CallExpr{Fun: r.simrtSel(fn), Args: []ast.Expr{x.X, r.newSite("ELEM", x, name)}}
			}
		}
		return x
	case *ast.UnaryExpr:
		if x.Op == token.AND {
			if cl, ok := x.X.(*ast.CompositeLit); ok {
				x.X = r.expr(cl, mRd)
			} else {
				x.X = r.expr(x.X, mAddr)
			}
			return x
		}
		if x.Op == token.ARROW {
			return &ast.CallExpr{Fun: &ast.SelectorExpr{X: r.chanOf(x.X), Sel: ast.NewIdent("Recv")}}
		}
		x.X = r.expr(x.X, mRd)
		return x
	case *ast.BinaryExpr:
		if x.Op == token.EQL || x.Op == token.NEQ {
			// p == nil for a named channel type compares the wrapped channel
			if isNamedChan(info.TypeOf(x.X)) {
				if tv, ok := info.Types[x.Y]; ok && tv.IsNil() {
					x.X = r.chanOf(x.X)
					return x
				}
			}
			if isNamedChan(info.TypeOf(x.Y)) {
				if tv, ok := info.Types[x.X]; ok && tv.IsNil() {
					x.Y = r.chanOf(x.Y)
					return x
				}
			}
		}
		x.X = r.expr(x.X, mRd)
		x.Y = r.expr(x.Y, mRd)
		return x
	case *ast.KeyValueExpr:
		x.Value = r.expr(x.Value, mRd)
		return x
	case *ast.CompositeLit:
		t := info.TypeOf(x)
		isStruct, isMap := false, false
		if t != nil {
			switch t.Underlying().(type) {
			case *types.Struct:
				isStruct = true
			case *types.Map:
				isMap = true
			}
		}
		for i, el := range x.Elts {
			if kv, ok := el.(*ast.KeyValueExpr); ok {
				if isMap {
					kv.Key = r.expr(kv.Key, mRd)
				}
				_ = isStruct
				kv.Value = r.expr(kv.Value, mRd)
			} else {
				x.Elts[i] = r.expr(el, mRd)
			}
		}
		return x
	case *ast.TypeAssertExpr:
		x.X = r.expr(x.X, mRd)
		return x
	case *ast.CallExpr:
		return r.call(x)
	case *ast.ArrayType, *ast.MapType, *ast.StructType, *ast.FuncType, *ast.InterfaceType, *ast.ChanType, *ast.Ellipsis:
		return x
	case *ast.IndexListExpr:
		return x
	}
	r.unsupported(e, fmt.Sprintf("expression %T", e))
	return e
}

func (r *rewriter) call(x *ast.CallExpr) ast.Expr {
	info := r.info()
	// conversion
	if tv, ok := info.Types[x.Fun]; ok && tv.IsType() {
		for i := range x.Args {
			x.Args[i] = r.expr(x.Args[i], mRd)
		}
		return x
	}
	// builtins
	if id, ok := unparen(x.Fun).(*ast.Ident); ok {
		if b, ok := info.Uses[id].(*types.Builtin); ok {
			switch b.Name() {
			case "new":
				return x
			case "make":
				for i := 1; i < len(x.Args); i++ {
					x.Args[i] = r.expr(x.Args[i], mRd)
				}
				if ct, ok := x.Args[0].(*ast.ChanType); ok {
					return &ast.CallExpr{Fun: &ast.IndexExpr{X: r.simrtSel("MakeChan"), Index: ct.Value}, Args: x.Args[1:]}
				}
				if t := info.TypeOf(x.Args[0]); t != nil && isNamedChan(t) {
					// make(pool, n) -> pool{C: simrt.MakeChan[T](n)}
					ch := t.(*types.Named).Underlying().(*types.Chan)
					elem, err := parser.ParseExpr(types.TypeString(ch.Elem(), func(p *types.Package) string {
						if p == r.p.pkg {
							return ""
						}
						return p.Name()
					}))
					if err != nil {
						r.unsupported(x, "make of a named channel type whose element type cannot be written out")
						return x
					}
					mk := &ast.CallExpr{Fun: &ast.IndexExpr{X: r.simrtSel("MakeChan"), Index: elem}, Args: x.Args[1:]}
					return &ast.CompositeLit{Type: x.Args[0], Elts: []ast.Expr{&ast.KeyValueExpr{Key: ast.NewIdent("C"), Value: mk}}}
				}
				return x
			case "append":
				for i := range x.Args {
					x.Args[i] = r.expr(x.Args[i], mRd)
				}
				if len(x.Args) >= 2 {
					// an append that fits the capacity writes into the backing array, which other slices may share
					x.Args[0] = &ast.CallExpr{Fun: r.simrtSel("AP"), Args: []ast.Expr{x.Args[0], r.newSite("ELEM", x, "append into "+r.describe(x.Args[0])+"[]")}}
				}
				return x
			case "close", "len", "cap":
				if len(x.Args) == 1 {
					if t := info.TypeOf(x.Args[0]); t != nil {
						if _, isChan := t.Underlying().(*types.Chan); isChan {
							m := map[string]string{"close": "Close", "len": "Len", "cap": "Cap"}[b.Name()]
							return &ast.CallExpr{Fun: &ast.SelectorExpr{X: r.chanOf(x.Args[0]), Sel: ast.NewIdent(m)}}
						}
					}
				}
				for i := range x.Args {
					x.Args[i] = r.expr(x.Args[i], mRd)
				}
				return x
			case "delete", "clear":
				if len(x.Args) > 0 {
					if _, isMap := info.TypeOf(x.Args[0]).Underlying().(*types.Map); isMap {
						name := r.describe(x.Args[0]) + "{}"
						orig := x.Args[0]
						m := r.expr(x.Args[0], mRd)
						x.Args[0] = &ast.CallExpr{Fun: r.simrtSel("MW"), Args: []ast.Expr{m, r.newSite("MAP", orig, name)}}
					} else {
						x.Args[0] = r.expr(x.Args[0], mRd)
					}
				}
				for i := 1; i < len(x.Args); i++ {
					x.Args[i] = r.expr(x.Args[i], mRd)
				}
				return x
			default:
				for i := range x.Args {
					x.Args[i] = r.expr(x.Args[i], mRd)
				}
				return x
			}
		}
	}
	// list methods
	if se, ok := unparen(x.Fun).(*ast.SelectorExpr); ok {
		if sel, ok := info.Selections[se]; ok && sel.Kind() == types.MethodVal && isListPtr(info.TypeOf(se.X)) {
			mut, rd := listMut[se.Sel.Name], listRead[se.Sel.Name]
			if mut || rd {
				name := r.describe(se.X) + "<list>"
				orig := se.X
				recv := r.expr(se.X, mRd)
				fn := "LR"
				if mut {
					fn = "LW"
				}
				se.X = &ast.CallExpr{Fun: r.simrtSel(fn), Args: []ast.Expr{recv, r.newSite("LIST", orig, name)}}
				for i := range x.Args {
					x.Args[i] = r.expr(x.Args[i], mRd)
				}
				return x
			}
		}
	}
	x.Fun = r.expr(x.Fun, mRd)
	for i := range x.Args {
		x.Args[i] = r.expr(x.Args[i], mRd)
	}
	return x
}

func unparen(e ast.Expr) ast.Expr {
	for {
		p, ok := e.(*ast.ParenExpr)
		if !ok {
			return e
		}
		e = p.X
	}
}
