package main

import (
	"container/list"
	"fmt"
	"os"
	"sort"
	"strings"
	"time"

	"github.com/6tail/lunar-go/HolidayUtil"
	"github.com/6tail/lunar-go/calendar"
	"github.com/6tail/lunar-go/simrt"
	"verif/harness/spec"
)

// ---- reference model: an ordered map day -> record ------------------------

type hrec struct {
	day    string // YYYY-MM-DD
	name   int    // index into names
	work   bool
	target string // YYYY-MM-DD
}

type hmodel struct {
	recs  map[string]hrec
	names []string
	// bookkeeping for finding classification
	addedBeforeExisting bool
}

func (m *hmodel) days() []string {
	out := make([]string, 0, len(m.recs))
	for d := range m.recs {
		out = append(out, d)
	}
	sort.Strings(out)
	return out
}

func (m *hmodel) render(r hrec) string {
	n := "?"
	if r.name >= 0 && r.name < len(m.names) {
		n = m.names[r.name]
	}
	return fmt.Sprintf("%s|%s|%v|%s", r.day, n, r.work, r.target)
}

func renderH(h *HolidayUtil.Holiday) string {
	if h == nil {
		return "nil"
	}
	return fmt.Sprintf("%s|%s|%v|%s", h.GetDay(), h.GetName(), h.IsWork(), h.GetTarget())
}

func renderL(l *list.List) []string {
	var out []string
	if l == nil {
		return out
	}
	for e := l.Front(); e != nil; e = e.Next() {
		out = append(out, renderH(e.Value.(*HolidayUtil.Holiday)))
	}
	// the caller owns what it was given: scribble over every second result (records and list); later queries
	// must not see any of it
	scribble++
	if scribble%2 == 0 {
		for e := l.Front(); e != nil; e = e.Next() {
			h := e.Value.(*HolidayUtil.Holiday)
			h.SetName("×")
			h.SetWork(!h.IsWork())
			h.SetTarget("1999-09-09")
			h.SetDay("1999-09-09")
		}
		l.Init()
		probesC["results_mutated_by_caller"]++
	}
	return out
}

var scribble int

func dash(s string) string   { return s[0:4] + "-" + s[4:6] + "-" + s[6:8] }
func undash(s string) string { return strings.Replace(s, "-", "", -1) }

func dayTime(d string) time.Time {
	t, _ := time.Parse("2006-01-02", d)
	return t
}

type c14 struct {
	s         *spec.Spec
	out       *spec.Result
	m         *hmodel
	firstY    int
	lastY     int
	rng       uint64
	resolved  []string
	checks    uint64
	step      int
	touched   []string       // days added or changed by earlier fix-ups (bias: follow-up fix-ups hit the same records)
	lastNames []string       // the slice object most recently passed to Fix as names list
	blocks    [][2]time.Time // first and last day of the recorded runs added so far
	renames   int
}

// pickDay chooses an existing record, half of the time one that an earlier fix-up touched.
func (c *c14) pickDay(days []string) string {
	if len(c.touched) > 0 && c.rnd()%2 == 0 {
		for tries := 0; tries < 8; tries++ {
			d := c.touched[c.rnd()%uint64(len(c.touched))]
			if _, ok := c.m.recs[d]; ok {
				probesC["fix_followup_on_touched_record"]++
				return d
			}
		}
	}
	return days[c.rnd()%uint64(len(days))]
}

// pickName chooses a name index, biased to names appended by a fix-up.
func (c *c14) pickName(nNames int) int {
	base := len(hNames0)
	if nNames > base && c.rnd()%2 == 0 {
		probesC["fix_uses_appended_name"]++
		return base + int(c.rnd()%uint64(nNames-base))
	}
	return int(c.rnd() % uint64(nNames))
}

var hNames0 []string

func (c *c14) rnd() uint64 {
	c.rng += 0x9e3779b97f4a7c15
	z := c.rng
	z = (z ^ (z >> 30)) * 0xbf58476d1ce4e5b9
	z = (z ^ (z >> 27)) * 0x94d049bb133111eb
	return z ^ (z >> 31)
}

func (c *c14) fail(class, key string, d map[string]string) {
	d["step"] = fmt.Sprint(c.step)
	d["history_so_far"] = strings.Join(c.resolved, " ; ")
	c.out.Status = "violation"
	c.out.Violation = &spec.Violation{Class: class, Key: key, Detail: d}
	c.finish()
}

func (c *c14) finish() {
	c.out.Checks = c.checks
	c.out.Resolved = c.resolved
	c.out.OpsDone = c.step
	c.out.NonTrivial = true
	c.out.Sig = fmt.Sprintf("%x", fnv(strings.Join(c.resolved, ";")+fmt.Sprint(c.s.Samples)))
	c.out.LogHash = fmt.Sprintf("%016x", fnv(strings.Join(c.resolved, "\n")+fmt.Sprint("|", c.checks, "|", len(c.m.recs), "|", c.rng)))
	if c.out.Status == "" {
		c.out.Status = "ok"
	}
	c.out.Probes = probesC
	c.out.Faults = map[string]uint64{}
	emit(c.out)
	exitNow()
}

var probesC = map[string]uint64{}

func exitNow() { os.Exit(0) }

func fnv(s string) uint64 {
	var h uint64 = 0xcbf29ce484222325
	for i := 0; i < len(s); i++ {
		h ^= uint64(s[i])
		h *= 0x100000001b3
	}
	return h
}

// safe wraps a library call; a panic is a violation of its own (queries with
// well-formed keys must not panic) unless allowed.
func safe(f func()) (p interface{}) {
	defer func() { p = recover() }()
	f()
	return nil
}

func runC14(s *spec.Spec, logPath string) {
	setClock(s.Clock)
	if s.Clock.Zone != "" {
		probesC["process_zone_named"]++
	}
	simrt.Solo = true
	c := &c14{s: s, out: &spec.Result{}, rng: s.Samples}
	simrt.SoloFail = func(class, key string, d map[string]string) {
		c.fail(class, key, d)
	}
	t0 := time.Now()
	c.build()
	c.checkAll(true)
	for i, st := range s.History {
		c.step = i + 1
		switch {
		case st.BadKey != nil:
			k := *st.BadKey
			c.resolved = append(c.resolved, "badkey("+k+")")
			for _, f := range []func(){
				func() { HolidayUtil.GetHoliday(k) },
				func() { HolidayUtil.GetHolidays(k) },
				func() { HolidayUtil.GetHolidaysByTarget(k) },
			} {
				if safe(f) != nil {
					probesC["bad_key_recovered"]++
				}
			}
			probesC["bad_key_queries"]++
		case st.Forgot != 0:
			c.forgotLabel(st.Forgot)
		case st.Flood != nil:
			c.flood(st.Flood)
			if i < len(s.History)-1 {
				continue
			}
		case st.Fix != nil:
			c.applyFix(st.Fix.Names, st.Fix.Data)
		case len(st.Acts) > 0:
			names, data := c.resolve(st)
			c.applyFix(names, data)
		}
		if st.Quiet && i < len(s.History)-1 {
			// corrections pushed one after the other: a check is itself a series of queries, and queries may refresh
			// whatever the library keeps lazily; the next fix-up must work on the state this one left
			probesC["fixes_back_to_back_without_a_query"]++
			continue
		}
		c.checkAll(i == len(s.History)-1)
	}
	c.out.RunMs = time.Since(t0).Milliseconds()
	c.finish()
}

// flood is the volume fault: by-day queries of many distinct days, one after the other, each compared with the model.
// Whatever the library keeps per queried day (memo, index, generation of a cache) is pushed past its capacity; the
// fix-ups and checks that follow must still see the table as the model has it.
func (c *c14) flood(f *spec.DayFlood) {
	setCall(fmt.Sprintf("flood of %d by-day queries from %s", f.Count, f.From))
	defer setCall("")
	c.resolved = append(c.resolved, fmt.Sprintf("flood%s(%s,%d,%d)", f.View, f.From, f.Count, f.Stride))
	if f.View == "year" || f.View == "ym" {
		c.floodView(f)
		return
	}
	t := dayTime(f.From)
	for i := 0; i < f.Count; i++ {
		ds := t.Format("2006-01-02")
		want := "nil"
		if r, ok := c.m.recs[ds]; ok {
			want = c.m.render(r)
		}
		var got, api string
		switch i % 3 {
		case 0:
			got, api = renderH(HolidayUtil.GetHolidayByYmd(t.Year(), int(t.Month()), t.Day())), "GetHolidayByYmd"
		case 1:
			got, api = renderH(HolidayUtil.GetHoliday(ds)), "GetHoliday"
		default:
			got, api = renderH(HolidayUtil.GetHoliday(undash(ds))), "GetHoliday(\"YYYYMMDD\")"
		}
		c.checks++
		if got != want {
			c.fail("VIEW_MISMATCH", "by_day", map[string]string{"day": ds, "api": api, "expected": want, "got": got, "during": fmt.Sprintf("flood query %d of %d", i+1, f.Count)})
		}
		t = t.AddDate(0, 0, f.Stride)
	}
	probesC["flood_steps"]++
	probesC["flood_queries"] += uint64(f.Count)
	if f.Count > 16384 {
		probesC["flood_over_16384_distinct_days"]++
	}
}

// floodView: Count by-year or by-month queries cycling over the years of the table (and one beyond on either side),
// each compared with the model's records of that period in date order.
func (c *c14) floodView(f *spec.DayFlood) {
	lo, hi := c.years()
	lo, hi = lo-1, hi+1
	byYear := map[int][]string{}
	byYm := map[string][]string{}
	for _, d := range c.m.days() {
		r := c.m.recs[d]
		y := dayTime(d).Year()
		byYear[y] = append(byYear[y], c.m.render(r))
		byYm[d[:7]] = append(byYm[d[:7]], c.m.render(r))
	}
	y := dayTime(f.From).Year()
	if y < lo || y > hi {
		y = lo
	}
	mo := 1
	for i := 0; i < f.Count; i++ {
		c.checks++
		if f.View == "year" {
			got := renderL(HolidayUtil.GetHolidaysByYear(y))
			if !eq(got, byYear[y]) {
				c.fail("VIEW_MISMATCH", "by_year/"+c.orderKey(), map[string]string{"year": fmt.Sprint(y), "expected": strings.Join(byYear[y], ", "), "got": strings.Join(got, ", "), "during": fmt.Sprintf("flood query %d of %d", i+1, f.Count)})
			}
			y++
		} else {
			k := fmt.Sprintf("%04d-%02d", y, mo)
			got := renderL(HolidayUtil.GetHolidaysByYm(y, mo))
			if !eq(got, byYm[k]) {
				c.fail("VIEW_MISMATCH", "by_ym/"+c.orderKey(), map[string]string{"month": k, "expected": strings.Join(byYm[k], ", "), "got": strings.Join(got, ", "), "during": fmt.Sprintf("flood query %d of %d", i+1, f.Count)})
			}
			mo++
			if mo > 12 {
				mo = 1
				y++
			}
		}
		if y > hi {
			y = lo
		}
	}
	probesC["flood_steps"]++
	probesC["flood_queries"] += uint64(f.Count)
	probesC["flood_by_"+f.View]++
}

// build initialises the model black-box from the by-day view and checks it
// against the union of the by-year views, so that neither is privileged.
func (c *c14) build() {
	c.m = &hmodel{recs: map[string]hrec{}, names: append([]string{}, HolidayUtil.NAMES...)}
	hNames0 = append([]string{}, HolidayUtil.NAMES...)
	// discover the span of years that have records
	c.firstY, c.lastY = 0, 0
	for y := 1990; y <= 2070; y++ {
		if HolidayUtil.GetHolidaysByYear(y).Len() > 0 {
			if c.firstY == 0 {
				c.firstY = y
			}
			c.lastY = y
		}
	}
	if c.firstY == 0 {
		c.fail("VIEW_MISMATCH", "by_year/empty_table", map[string]string{"what": "no year between 1990 and 2070 has any record"})
	}
	nameIdx := map[string]int{}
	for i, n := range c.m.names {
		if _, ok := nameIdx[n]; !ok {
			nameIdx[n] = i
		}
	}
	for d := time.Date(c.firstY-2, 1, 1, 0, 0, 0, 0, time.UTC); d.Year() <= c.lastY+2; d = d.AddDate(0, 0, 1) {
		ds := d.Format("2006-01-02")
		h := HolidayUtil.GetHoliday(ds)
		if h == nil {
			continue
		}
		if h.GetDay() != ds {
			c.fail("VIEW_MISMATCH", "by_day/wrong_day", map[string]string{"asked": ds, "got": renderH(h)})
		}
		ni, ok := nameIdx[h.GetName()]
		if !ok {
			ni = -1
		}
		c.m.recs[ds] = hrec{ds, ni, h.IsWork(), h.GetTarget()}
	}
}

func (c *c14) years() (int, int) {
	lo, hi := c.firstY-2, c.lastY+2
	for d := range c.m.recs {
		y := int(d[0]-'0')*1000 + int(d[1]-'0')*100 + int(d[2]-'0')*10 + int(d[3]-'0')
		if y-1 < lo {
			lo = y - 1
		}
		if y+1 > hi {
			hi = y + 1
		}
	}
	return lo, hi
}

// ---- fix-ups ---------------------------------------------------------------

func (c *c14) freeDay(y int) string {
	for tries := 0; tries < 400; tries++ {
		d := time.Date(y, time.Month(1+c.rnd()%12), int(1+c.rnd()%28), 0, 0, 0, 0, time.UTC).Format("2006-01-02")
		if _, ok := c.m.recs[d]; !ok {
			return d
		}
	}
	return fmt.Sprintf("%04d-07-15", y)
}

type againState struct {
	present bool
	rec     hrec
}

func (c *c14) resolve(st spec.HStep) ([]string, string) {
	var names []string
	nNames := len(c.m.names)
	if st.Extra > 0 {
		names = append([]string{}, c.m.names...)
		for i := 0; i < st.Extra; i++ {
			names = append(names, fmt.Sprintf("新节%d", len(names)))
		}
		nNames = len(names)
		probesC["fix_names_extended"]++
	} else if st.Rename != 0 && c.lastNames != nil {
		// the caller renames a label in place in the very slice it passed before, and passes it again
		i := int(st.Rename % uint64(len(c.lastNames)))
		c.renames++
		c.lastNames[i] = fmt.Sprintf("改名%d", c.renames)
		names = c.lastNames
		probesC["fix_names_renamed_in_place"]++
	}
	days := c.m.days()
	used := map[string]bool{}
	again := map[string]againState{} // days that existed before this call and that this string has replaced or removed so far
	var data strings.Builder
	seg := func(day string, name int, work bool, target string) {
		w := "1"
		if work {
			w = "0"
		}
		data.WriteString(undash(day) + string(rune('0'+name)) + w + undash(target))
	}
	maxDay := ""
	if len(days) > 0 {
		maxDay = days[len(days)-1]
	}
	saved := c.rng
	defer func() { c.rng = saved }()
	for _, a := range st.Acts {
		c.rng = a.Pick
		var day string
		switch a.Kind {
		case "add_future":
			y := c.lastY + 1 + int(c.rnd()%3)
			day = c.freeDay(y)
			if used[day] {
				continue
			}
			t := dayTime(day).AddDate(0, 0, int(c.rnd()%5)-2).Format("2006-01-02")
			seg(day, c.pickName(nNames), c.rnd()%3 == 0, t)
			probesC["fix_add_future"]++
			if day < maxDay {
				probesC["fix_add_before_existing"]++
			}
		case "add_before":
			y := c.firstY + int(c.rnd()%uint64(c.lastY-c.firstY+1))
			day = c.freeDay(y)
			if len(c.touched) > 0 && c.rnd()%4 == 0 {
				// re-add a day that an earlier fix-up removed
				if d := c.touched[c.rnd()%uint64(len(c.touched))]; true {
					if _, ok := c.m.recs[d]; !ok {
						day = d
						probesC["fix_readd_removed_day"]++
					}
				}
			}
			t := dayTime(day).AddDate(0, 0, int(c.rnd()%7)-3).Format("2006-01-02")
			if c.rnd()%3 == 0 {
				// digit patterns: the table is scanned as one packed digit string, so put a record right at a year
				// boundary (last free days of December, first of January) and give it a target whose digits
				// repeat the neighbouring year's (day-of-month 19..22, 01, 02, 10..12; month 01, 02, 10..12, 20xx)
				yy := c.firstY + int(c.rnd()%uint64(c.lastY-c.firstY+1))
				var cand time.Time
				if c.rnd()%2 == 0 {
					cand = time.Date(yy, 12, 31-int(c.rnd()%12), 0, 0, 0, 0, time.UTC)
				} else {
					cand = time.Date(yy, 1, 1+int(c.rnd()%3), 0, 0, 0, 0, time.UTC)
				}
				cd := cand.Format("2006-01-02")
				if _, ok := c.m.recs[cd]; !ok {
					day = cd
					doms := []int{19, 20, 21, 22, 1, 2, 10, 11, 12}
					mons := []time.Month{1, 2, 10, 11, 12, cand.Month()}
					t = time.Date(cand.Year()+int(c.rnd()%2), mons[c.rnd()%uint64(len(mons))], doms[c.rnd()%uint64(len(doms))], 0, 0, 0, 0, time.UTC).Format("2006-01-02")
					if c.rnd()%3 == 0 {
						t = cd[:8] + fmt.Sprintf("%02d", doms[c.rnd()%uint64(len(doms))]) // same month, patterned day
						if _, err := time.Parse("2006-01-02", t); err != nil {
							t = cd
						}
					}
					probesC["fix_add_digit_pattern_at_year_boundary"]++
				}
			}
			if used[day] {
				continue
			}
			seg(day, c.pickName(nNames), c.rnd()%3 == 0, t)
			if day < maxDay {
				probesC["fix_add_before_existing"]++
			}
		case "add_between":
			if len(days) == 0 {
				continue
			}
			base := c.m.recs[days[c.rnd()%uint64(len(days))]]
			// a free day within +-4 days of a record of that festival, same target
			for tries := 0; tries < 20 && day == ""; tries++ {
				d := dayTime(base.day).AddDate(0, 0, int(c.rnd()%9)-4).Format("2006-01-02")
				if _, ok := c.m.recs[d]; !ok && !used[d] {
					day = d
				}
			}
			if day == "" {
				continue
			}
			seg(day, base.name, c.rnd()%2 == 0, base.target)
			probesC["fix_add_between"]++
			if day < maxDay {
				probesC["fix_add_before_existing"]++
			}
		case "add_block":
			// a run of consecutive recorded days (a long shutdown, or a run of make-up days across weekends): absent days
			// are added, present ones replaced, all in one fix-up string in date order
			var n int
			switch c.rnd() % 20 {
			case 0, 1, 2, 3, 4, 5, 6, 7:
				n = 2 + int(c.rnd()%8)
			case 8, 9, 10, 11, 12:
				n = 10 + int(c.rnd()%22)
			case 13, 14:
				n = 29 + int(c.rnd()%6) // around a month
			default:
				n = 32 + int(c.rnd()%40)
			}
			var start time.Time
			switch {
			case len(days) > 0 && c.rnd()%2 == 0:
				start = dayTime(days[c.rnd()%uint64(len(days))]).AddDate(0, 0, int(c.rnd()%21)-10)
			case c.rnd()%3 == 0:
				start = dayTime(c.freeDay(c.lastY + 1 + int(c.rnd()%2)))
			default:
				start = dayTime(c.freeDay(c.firstY + int(c.rnd()%uint64(c.lastY-c.firstY+1))))
			}
			work := c.rnd()%4 == 0
			name := c.pickName(nNames)
			target := start.Format("2006-01-02")
			wrote := 0
			for i := 0; i < n; i++ {
				d := start.AddDate(0, 0, i).Format("2006-01-02")
				if used[d] {
					continue
				}
				seg(d, name, work, target)
				used[d] = true
				wrote++
			}
			if wrote == 0 {
				continue
			}
			day = target
			c.blocks = append(c.blocks, [2]time.Time{start, start.AddDate(0, 0, n-1)})
			probesC["fix_add_block"]++
			if n > 31 {
				probesC["fix_add_block_longer_than_31_days"]++
			}
		case "same_day_again":
			// a second segment for a day this very string has already replaced or removed (an upstream patch
			// concatenated with a local override): segments apply in order, the last one decides
			var cands []string
			for d := range again {
				cands = append(cands, d)
			}
			if len(cands) == 0 {
				continue
			}
			sort.Strings(cands)
			d := cands[c.rnd()%uint64(len(cands))]
			st := again[d]
			if st.present {
				if c.rnd()%2 == 0 {
					data.WriteString(undash(d) + "~" + "000000000")
					st.present = false
				} else {
					st.rec.work = !st.rec.work
					if c.rnd()%2 == 0 {
						st.rec.name = c.pickName(nNames)
					}
					seg(d, st.rec.name, st.rec.work, st.rec.target)
				}
				again[d] = st
			} else {
				// re-added: the library collects added records and puts them in at the end of the call, so a further
				// segment for this day would be "an absent day named twice", which the statement does not define
				seg(d, st.rec.name, c.rnd()%2 == 0, st.rec.target)
				delete(again, d)
			}
			probesC["fix_names_same_day_twice"]++
			continue
		case "replace_flag", "replace_name", "replace_target":
			if len(days) == 0 {
				continue
			}
			r := c.m.recs[c.pickDay(days)]
			day = r.day
			if used[day] || r.name < 0 {
				continue
			}
			switch a.Kind {
			case "replace_flag":
				r.work = !r.work
			case "replace_name":
				if nn := c.pickName(nNames); nn != r.name {
					r.name = nn
				} else {
					r.name = (r.name + 1 + int(c.rnd()%uint64(nNames-1))) % nNames
				}
			default:
				if c.rnd()%2 == 0 && len(days) > 1 {
					r.target = c.m.recs[days[c.rnd()%uint64(len(days))]].target
				} else {
					r.target = dayTime(r.target).AddDate(0, 0, 1+int(c.rnd()%3)).Format("2006-01-02")
				}
			}
			seg(day, r.name, r.work, r.target)
			again[day] = againState{true, r}
			probesC["fix_replace"]++
		case "remove":
			if len(days) == 0 {
				continue
			}
			day = c.pickDay(days)
			if used[day] {
				continue
			}
			data.WriteString(undash(day) + "~" + "000000000")
			again[day] = againState{false, c.m.recs[day]}
			probesC["fix_remove"]++
		case "remove_absent":
			day = c.freeDay(c.firstY + int(c.rnd()%uint64(c.lastY-c.firstY+3)))
			if used[day] {
				continue
			}
			data.WriteString(undash(day) + "~" + "000000000")
			probesC["fix_remove_absent"]++
		}
		used[day] = true
	}
	return names, data.String()
}

// forgotLabel: a fix-up adds a record for a NEW festival but the caller forgets to pass the extended name list (the
// record's label index is one past the names in use). A working-day walk across that day panics - as it does in the
// library as shipped - and the caller recovers; then the caller repairs the table by passing the extended names with
// an empty fix-up string. After that everything must be as the model says, and in particular the repairing Fix must
// return (a panic that left a lock held would block it).
func (c *c14) forgotLabel(pick uint64) {
	saved := c.rng
	c.rng = pick
	defer func() { c.rng = saved }()
	idx := len(c.m.names)
	if idx > 40 {
		return
	}
	day := c.freeDay(c.lastY + 1)
	data := undash(day) + string(rune('0'+idx)) + "1" + undash(day)
	c.applyFix(nil, data)
	start := dayTime(day).AddDate(0, 0, -2-int(c.rnd()%3))
	setCall("next " + start.Format("2006-01-02"))
	if p := safe(func() { calendar.NewSolarFromYmd(start.Year(), int(start.Month()), start.Day()).Next(5, true) }); p != nil {
		probesC["walk_over_unlabelled_record_panicked_and_recovered"]++
	}
	setCall("")
	names := append(append([]string{}, c.m.names...), fmt.Sprintf("补名%d", idx))
	c.applyFix(names, "")
	probesC["forgotten_label_repaired"]++
}

// applyFix calls the library and applies the same fix-up to the model by the
// documented rule: absent day -> add, present -> replace, "~" -> remove.
func (c *c14) applyFix(names []string, data string) {
	desc := fmt.Sprintf("Fix(names=%d,%q)", len(names), data)
	c.resolved = append(c.resolved, desc)
	setCall("holiday " + desc)
	defer setCall("")
	if p := safe(func() { HolidayUtil.Fix(names, data) }); p != nil {
		c.fail("FIX_PANIC", "fix_panicked", map[string]string{"call": desc, "panic": fmt.Sprint(p)})
	}
	if names != nil {
		c.m.names = append([]string{}, names...)
		c.lastNames = names
	}
	maxDay := ""
	for d := range c.m.recs {
		if d > maxDay {
			maxDay = d
		}
	}
	for len(data) >= 18 {
		s := data[:18]
		data = data[18:]
		day := dash(s[:8])
		if s[8] == '~' {
			delete(c.m.recs, day)
			c.touched = append(c.touched, day)
			continue
		}
		if _, ok := c.m.recs[day]; !ok && day < maxDay {
			c.m.addedBeforeExisting = true
		}
		c.m.recs[day] = hrec{day, int(s[8] - '0'), s[9] == '0', dash(s[10:18])}
		c.touched = append(c.touched, day)
		if y := dayTime(day).Year(); y > c.lastY {
			c.lastY = y
		}
	}
}

// ---- invariants ------------------------------------------------------------

func eq(a, b []string) bool {
	if len(a) != len(b) {
		return false
	}
	for i := range a {
		if a[i] != b[i] {
			return false
		}
	}
	return true
}

func (c *c14) orderKey() string {
	if c.m.addedBeforeExisting {
		return "added_day_precedes_existing_record"
	}
	return "table_as_shipped_or_appended_in_order"
}

func (c *c14) checkAll(full bool) {
	setCall(fmt.Sprintf("holiday queries and workday walks after step %d", c.step))
	defer setCall("")
	m := c.m
	days := m.days()
	lo, hi := c.years()
	// by year and by month: exactly the model's records of that period, in date order
	byYear := map[int][]string{}
	byYm := map[string][]string{}
	byTarget := map[string][]string{}
	var targetsOrder []string
	for _, d := range days {
		r := m.recs[d]
		y := dayTime(d).Year()
		byYear[y] = append(byYear[y], m.render(r))
		byYm[d[:7]] = append(byYm[d[:7]], m.render(r))
		if _, ok := byTarget[r.target]; !ok {
			targetsOrder = append(targetsOrder, r.target)
		}
		byTarget[r.target] = append(byTarget[r.target], m.render(r))
	}
	for y := lo; y <= hi; y++ {
		c.checks++
		got := renderL(HolidayUtil.GetHolidaysByYear(y))
		if !eq(got, byYear[y]) {
			c.fail("VIEW_MISMATCH", "by_year/"+c.orderKey(), map[string]string{"year": fmt.Sprint(y), "expected": strings.Join(byYear[y], ", "), "got": strings.Join(got, ", ")})
		}
		// the generic prefix API with a year string is the same view
		if got := renderL(HolidayUtil.GetHolidays(fmt.Sprintf("%04d", y))); !eq(got, byYear[y]) {
			c.fail("VIEW_MISMATCH", "by_year/"+c.orderKey(), map[string]string{"year": fmt.Sprint(y), "api": "GetHolidays(\"YYYY\")", "expected": strings.Join(byYear[y], ", "), "got": strings.Join(got, ", ")})
		}
		for mo := 1; mo <= 12; mo++ {
			if !full && len(byYear[y]) == 0 {
				continue
			}
			c.checks++
			k := fmt.Sprintf("%04d-%02d", y, mo)
			got := renderL(HolidayUtil.GetHolidaysByYm(y, mo))
			if !eq(got, byYm[k]) {
				c.fail("VIEW_MISMATCH", "by_ym/"+c.orderKey(), map[string]string{"month": k, "expected": strings.Join(byYm[k], ", "), "got": strings.Join(got, ", ")})
			}
			for _, key := range []string{k, undash(k)} {
				if got := renderL(HolidayUtil.GetHolidays(key)); !eq(got, byYm[k]) {
					c.fail("VIEW_MISMATCH", "by_ym/"+c.orderKey(), map[string]string{"month": k, "api": "GetHolidays(" + key + ")", "expected": strings.Join(byYm[k], ", "), "got": strings.Join(got, ", ")})
				}
			}
		}
	}
	// by day: every model day, its neighbours, and (full) every day of the span
	checkDay := func(ds string) {
		c.checks++
		want := "nil"
		if r, ok := m.recs[ds]; ok {
			want = m.render(r)
		}
		got := renderH(HolidayUtil.GetHoliday(ds))
		if got != want {
			c.fail("VIEW_MISMATCH", "by_day", map[string]string{"day": ds, "expected": want, "got": got})
		}
		t := dayTime(ds)
		got2 := renderH(HolidayUtil.GetHolidayByYmd(t.Year(), int(t.Month()), t.Day()))
		if got2 != want {
			c.fail("VIEW_MISMATCH", "by_day", map[string]string{"day": ds, "api": "GetHolidayByYmd", "expected": want, "got": got2})
		}
		if got3 := renderH(HolidayUtil.GetHoliday(undash(ds))); got3 != want {
			c.fail("VIEW_MISMATCH", "by_day", map[string]string{"day": ds, "api": "GetHoliday(\"YYYYMMDD\")", "expected": want, "got": got3})
		}
		l := renderL(HolidayUtil.GetHolidays(ds))
		var wantL []string
		if want != "nil" {
			wantL = []string{want}
		}
		if !eq(l, wantL) {
			c.fail("VIEW_MISMATCH", "by_day", map[string]string{"day": ds, "api": "GetHolidays", "expected": strings.Join(wantL, ", "), "got": strings.Join(l, ", ")})
		}
	}
	if full {
		for d := time.Date(lo, 1, 1, 0, 0, 0, 0, time.UTC); d.Year() <= hi; d = d.AddDate(0, 0, 1) {
			checkDay(d.Format("2006-01-02"))
		}
	} else {
		for _, d := range days {
			checkDay(d)
			t := dayTime(d)
			checkDay(t.AddDate(0, 0, 1).Format("2006-01-02"))
			checkDay(t.AddDate(0, 0, -1).Format("2006-01-02"))
		}
	}
	// by target: all records with that target, nothing else
	for _, t := range targetsOrder {
		c.checks++
		got := renderL(HolidayUtil.GetHolidaysByTarget(t))
		if g3 := renderL(HolidayUtil.GetHolidaysByTarget(undash(t))); !eq(g3, got) {
			c.fail("VIEW_MISMATCH", "by_target/dashed_and_undashed_keys_differ", map[string]string{"target": t, "dashed": strings.Join(got, ", "), "undashed": strings.Join(g3, ", ")})
		}
		tt := dayTime(t)
		got2 := renderL(HolidayUtil.GetHolidaysByTargetYmd(tt.Year(), int(tt.Month()), tt.Day()))
		want := byTarget[t]
		for _, g := range [][]string{got, got2} {
			if !eq(g, want) {
				// classify: are the model's records for this target contiguous in date order?
				contiguous := true
				first, last := -1, -1
				for i, d := range days {
					if m.recs[d].target == t {
						if first < 0 {
							first = i
						}
						last = i
					}
				}
				for i := first; i <= last && first >= 0; i++ {
					if m.recs[days[i]].target != t {
						contiguous = false
					}
				}
				key := "by_target/other"
				if !contiguous {
					key = "by_target/target_records_not_contiguous"
					probesC["target_records_not_contiguous"]++
				} else if c.m.addedBeforeExisting {
					key = "by_target/added_day_precedes_existing_record"
				}
				c.fail("VIEW_MISMATCH", key, map[string]string{"target": t, "expected": strings.Join(want, ", "), "got": strings.Join(g, ", ")})
			}
		}
		// probe only
		first, last := -1, -1
		for i, d := range days {
			if m.recs[d].target == t {
				if first < 0 {
					first = i
				}
				last = i
			}
		}
		for i := first; i <= last && first >= 0; i++ {
			if m.recs[days[i]].target != t {
				probesC["target_records_not_contiguous"]++
				break
			}
		}
	}
	// absent targets
	for i := 0; i < 6; i++ {
		t := time.Date(lo+int(c.rnd()%uint64(hi-lo+1)), time.Month(1+c.rnd()%12), int(1+c.rnd()%28), 0, 0, 0, 0, time.UTC).Format("2006-01-02")
		if _, ok := byTarget[t]; ok {
			continue
		}
		c.checks++
		if got := renderL(HolidayUtil.GetHolidaysByTarget(t)); len(got) != 0 {
			c.fail("VIEW_MISMATCH", "by_target/absent_target_has_results", map[string]string{"target": t, "got": strings.Join(got, ", ")})
		}
	}
	c.checkWalks(days)
}

func (c *c14) works(t time.Time) bool {
	if r, ok := c.m.recs[t.Format("2006-01-02")]; ok {
		return r.work
	}
	wd := t.Weekday()
	return wd != time.Saturday && wd != time.Sunday
}

// rateOf is the stated pay-rate rule for a civil day (lunar date and Qingming from the library's conversion).
func (c *c14) rateOf(day time.Time) int {
	lun := calendar.NewSolarFromYmd(day.Year(), int(day.Month()), day.Day()).GetLunar()
	statutory := (day.Month() == 1 && day.Day() == 1) || (day.Month() == 5 && day.Day() == 1) ||
		(day.Month() == 10 && day.Day() >= 1 && day.Day() <= 3) ||
		(lun.GetMonth() == 1 && lun.GetDay() >= 1 && lun.GetDay() <= 3) ||
		(lun.GetMonth() == 5 && lun.GetDay() == 5) || (lun.GetMonth() == 8 && lun.GetDay() == 15) ||
		lun.GetJieQi() == "清明"
	switch {
	case statutory:
		return 3
	case !c.works(day):
		return 2
	}
	return 1
}

func (c *c14) checkWalks(days []string) {
	lo, hi := c.years()
	n := 24
	for i := 0; i < n; i++ {
		var start time.Time
		switch {
		case i%4 == 3:
			// on and around the statutory festival days (boundaries of the 3x rule)
			y := lo + int(c.rnd()%uint64(hi-lo+1))
			off := int(c.rnd()%5) - 2
			var base time.Time
			switch c.rnd() % 7 {
			case 0:
				base = time.Date(y, 1, 1, 0, 0, 0, 0, time.UTC)
			case 1:
				base = time.Date(y, 5, 1, 0, 0, 0, 0, time.UTC)
			case 2:
				base = time.Date(y, 10, 1+int(c.rnd()%3), 0, 0, 0, 0, time.UTC)
			case 3, 4, 5:
				lm, ld := [][2]int{{1, 1 + int(c.rnd()%3)}, {5, 5}, {8, 15}}[c.rnd()%3][0], 0
				switch lm {
				case 1:
					ld = 1 + int(c.rnd()%3)
				case 5:
					ld = 5
				default:
					ld = 15
				}
				func() {
					defer func() { recover() }()
					sl := calendar.NewLunarFromYmd(y, lm, ld).GetSolar()
					base = time.Date(sl.GetYear(), time.Month(sl.GetMonth()), sl.GetDay(), 0, 0, 0, 0, time.UTC)
				}()
			default:
				base = time.Date(y, 4, 4+int(c.rnd()%3), 0, 0, 0, 0, time.UTC)
			}
			if base.IsZero() {
				base = time.Date(y, 1, 1, 0, 0, 0, 0, time.UTC)
			}
			start = base.AddDate(0, 0, off)
			probesC["salary_near_statutory_day"]++
		case len(days) > 0 && c.rnd()%3 != 0:
			start = dayTime(days[c.rnd()%uint64(len(days))]).AddDate(0, 0, int(c.rnd()%9)-4)
		default:
			start = time.Date(lo+int(c.rnd()%uint64(hi-lo+1)), time.Month(1+c.rnd()%12), int(1+c.rnd()%28), 0, 0, 0, 0, time.UTC)
		}
		var steps int
		forced := false
		if len(c.blocks) > 0 && i%6 == 1 {
			// into a recorded run from just outside it, in either direction, by a few working days
			b := c.blocks[c.rnd()%uint64(len(c.blocks))]
			if c.rnd()%2 == 0 {
				start, steps = b[0].AddDate(0, 0, -1-int(c.rnd()%3)), 1+int(c.rnd()%4)
			} else {
				start, steps = b[1].AddDate(0, 0, 1+int(c.rnd()%3)), -1-int(c.rnd()%4)
			}
			forced = true
			probesC["workday_walk_into_recorded_run"]++
		}
		if !forced {
			switch c.rnd() % 4 {
			case 0:
				steps = int(c.rnd()%5) - 2
			case 1:
				steps = int(c.rnd()%41) - 20
			case 2:
				steps = int(c.rnd()%801) - 400
			default:
				steps = []int{0, 1, -1, 5, -5, 7, -7, 22, -22, 250, -250, 262, -262, 523, 1000, -1000, 1500}[c.rnd()%17]
			}
		}
		// reference walk
		exp := start
		if steps != 0 {
			dir, rest := 1, steps
			if steps < 0 {
				dir, rest = -1, -steps
			}
			for rest > 0 {
				exp = exp.AddDate(0, 0, dir)
				if c.works(exp) {
					rest--
				}
			}
		}
		c.checks++
		var got string
		var landed *calendar.Solar
		startSolar := calendar.NewSolarFromYmd(start.Year(), int(start.Month()), start.Day())
		if i%2 == 0 {
			// ask the start object for its pay rate first: the object reached by stepping must still report its OWN day
			safe(func() { startSolar.GetSalaryRate() })
		}
		if p := safe(func() {
			landed = startSolar.Next(steps, true)
			got = landed.ToYmd()
		}); p != nil {
			c.fail("WORKDAY_MISMATCH", "workday/panic", map[string]string{"start": start.Format("2006-01-02"), "n": fmt.Sprint(steps), "panic": fmt.Sprint(p)})
		}
		if got != exp.Format("2006-01-02") {
			c.fail("WORKDAY_MISMATCH", "workday/wrong_landing_day", map[string]string{"start": start.Format("2006-01-02"), "n": fmt.Sprint(steps),
				"expected": exp.Format("2006-01-02") + " (lands on a working day with exactly |n| working days passed)", "got": got})
		}
		probesC["workday_steps"]++
		// pay rate asked of the object that the walk returned (not of a freshly built date)
		if landed != nil {
			c.checks++
			wantL := c.rateOf(exp)
			if gotL := landed.GetSalaryRate(); gotL != wantL {
				c.fail("SALARY_MISMATCH", fmt.Sprintf("salary/on_stepped_object_expected_%d_got_%d", wantL, gotL), map[string]string{
					"day": exp.Format("2006-01-02"), "reached_from": start.Format("2006-01-02"), "n": fmt.Sprint(steps)})
			}
			probesC["salary_on_stepped_object"]++
		}
		// salary rate on the start day
		c.checks++
		sol := calendar.NewSolarFromYmd(start.Year(), int(start.Month()), start.Day())
		want := c.rateOf(start)
		if want == 3 {
			probesC["salary_statutory"]++
		}
		if got := sol.GetSalaryRate(); got != want {
			c.fail("SALARY_MISMATCH", fmt.Sprintf("salary/expected_%d_got_%d", want, got), map[string]string{"day": start.Format("2006-01-02"), "lunar": sol.GetLunar().String()})
		}
		probesC["salary_checked"]++
	}
}
