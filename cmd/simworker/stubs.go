package main

import "verif/harness/spec"

func runC10(s *spec.Spec, logPath string) { fatal("C10 not implemented") }
