package main

import "verif/harness/spec"

func runC10(s *spec.Spec, logPath string) { fatal("C10 not implemented") }
func runC14(s *spec.Spec, logPath string) { fatal("C14 not implemented") }
