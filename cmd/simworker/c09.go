package main

import (
	"fmt"
	"os"
	"strings"
	"time"

	"github.com/6tail/lunar-go/simrt"
	"verif/harness/ops"
	"verif/harness/spec"
)

// diffAccessor names the accessor at which two digests part ("" if unknown).
func diffAccessor(a, b string) string {
	n := len(a)
	if len(b) < n {
		n = len(b)
	}
	i := 0
	for i < n && a[i] == b[i] {
		i++
	}
	// walk back to the start of the enclosing "Name=" at nesting level of the difference
	depth := 0
	for j := i - 1; j >= 0; j-- {
		switch a[j] {
		case '}', ']':
			depth++
		case '{', '[':
			if depth > 0 {
				depth--
			}
		case '=':
			if depth == 0 {
				k := j - 1
				for k >= 0 && (a[k] == '_' || a[k] >= '0' && a[k] <= '9' || a[k] >= 'A' && a[k] <= 'Z' || a[k] >= 'a' && a[k] <= 'z') {
					k--
				}
				if k+1 < j {
					return a[k+1 : j]
				}
			}
		}
	}
	return ""
}

func floodKind(fl *spec.Flood) string {
	if fl.Op.Sub != nil {
		return fl.Op.Sub.K
	}
	return fl.Op.K
}

// floodOp is call i of a flood (spec.FloodOp, shared with the generator so that witnesses name the same calls).
func floodOp(fl *spec.Flood, i int) ops.Op { return spec.FloodOp(fl, i) }

func runC09(s *spec.Spec, logPath string) {
	out := &spec.Result{}
	setClock(s.Clock)
	// oracle: one fresh process per universe entry that some task uses
	used := make([]bool, len(s.Universe))
	for _, t := range s.Tasks {
		for _, st := range t.Ops {
			switch {
			case st.U != nil:
				used[*st.U] = true
			case st.Read != nil:
				used[st.Read.U] = true
			}
		}
	}
	t0 := time.Now()
	oracle := make([]string, len(s.Universe))
	for i, op := range s.Universe {
		if !used[i] {
			continue
		}
		d, err := freshDigest(op, s.Clock)
		if ov, ok := err.(*oracleViolation); ok {
			out.Status = "violation"
			out.Violation = &ov.v
			out.Sig = "oracle"
			emit(out)
			return
		}
		if err != nil {
			out.Status = "internal"
			out.Internal = err.Error()
			emit(out)
			return
		}
		oracle[i] = d
	}
	out.OracleMs = time.Since(t0).Milliseconds()

	slots := make([]interface{}, 64)
	var checks uint64
	opsDone := 0
	compare := func(u int, got string) {
		checks++
		want := oracle[u]
		simrt.LogNote('R', uint64(u), got)
		if got == want {
			return
		}
		op := s.Universe[u]
		kind := op.K
		if op.Sub != nil {
			kind = "read " + op.Sub.K
		}
		acc := diffAccessor(want, got)
		if strings.HasPrefix(want, "PANIC:") != strings.HasPrefix(got, "PANIC:") {
			acc = "panics"
		}
		simrt.Fail("RESULT_DIVERGED", kind+"/"+acc, map[string]string{
			"op":    op.String(),
			"task":  fmt.Sprint(simrt.CurTask()),
			"where": ops.FirstDiff(want, got),
			"note":  "expected = the same call as the first and only call of a fresh process",
		})
	}
	var fns []func()
	for ti := range s.Tasks {
		task := s.Tasks[ti]
		fns = append(fns, func() {
			for _, st := range task.Ops {
				simrt.OpBoundary()
				switch {
				case st.Clock != nil:
					simrt.AdvanceClock(time.Duration(*st.Clock) * time.Second)
					continue
				case st.Flood != nil:
					// volume fault: many distinct valid calls back to back; they are load (not compared) - the witnesses
					// before, after and beside them are what the oracle judges
					fl := st.Flood
					for i := 0; i < fl.Count; i++ {
						op := floodOp(fl, i)
						name := op.String()
						simrt.BeginCall()
						simrt.CallBudget(callBudgetOf(name), name)
						setCall(name)
						d := ops.Run(op)
						setCall("")
						how := "after returning"
						if strings.Contains(d, "PANIC") {
							how = "after a recovered panic"
						}
						simrt.EndCall(how)
						simrt.Probe("flood_calls")
						if i+1 < fl.Count {
							simrt.OpBoundary()
						}
					}
					simrt.Probe("fault_step_flood")
					simrt.Probe("flood_" + fl.Unit + "_" + floodKind(fl))
					if fl.Stride == 0 {
						simrt.Probe("flood_hot_key")
					}
					if fl.Count > 128 {
						simrt.Probe("flood_over_128_distinct")
					}
					if fl.Count > 1024 {
						simrt.Probe("flood_over_1024_distinct")
					}
					if fl.Count > 16384 {
						simrt.Probe("flood_over_16384_distinct")
					}
				case st.U != nil:
					simrt.BeginCall()
					simrt.CallBudget(callBudgetOf(s.Universe[*st.U].String()), s.Universe[*st.U].String())
					setCall(s.Universe[*st.U].String())
					d := ops.Run(s.Universe[*st.U])
					setCall("")
					how := "after returning"
					if strings.Contains(d, "PANIC") {
						how = "after a recovered panic"
						simrt.Probe("recovered_panic")
					}
					simrt.EndCall(how)
					compare(*st.U, d)
					if st.Fault != "" {
						simrt.Probe("fault_step_" + st.Fault)
					}
				case st.Pub != nil:
					simrt.BeginCall()
					simrt.CallBudget(callBudgetOf(s.Universe[st.Pub.U].String()), s.Universe[st.Pub.U].String())
					var v interface{}
					setCall(s.Universe[st.Pub.U].String())
					func() {
						defer func() { recover() }()
						v = ops.Construct(s.Universe[st.Pub.U])
					}()
					setCall("")
					simrt.EndCall("after constructing")
					if v != nil {
						slots[st.Pub.Slot] = v
						simrt.Publish(st.Pub.Slot)
						simrt.Probe("published")
					}
				case st.Read != nil:
					v := slots[st.Read.Slot]
					if v == nil {
						simrt.Probe("read_before_publish_skipped")
						continue
					}
					simrt.Acquire(st.Read.Slot)
					op := s.Universe[st.Read.U]
					simrt.BeginCall()
					var d string
					func() {
						defer func() {
							if r := recover(); r != nil {
								d = "PANIC:" + fmt.Sprint(r)
							}
						}()
						simrt.CallBudget(callBudgetOf(op.String()), op.String())
						setCall(op.String())
						d = ops.DigestSubset(v, op.Acc, op.N)
						setCall("")
					}()
					how := "after returning"
					if strings.Contains(d, "PANIC") {
						how = "after a recovered panic"
					}
					simrt.EndCall(how)
					simrt.Probe("shared_read")
					compare(st.Read.U, d)
				}
				opsDone++
			}
		})
	}
	cfg := simConfig(s, logPath)
	t1 := time.Now()
	abort := func(r *simrt.Result) {
		fromSim(r, out)
		out.OpsDone, out.Checks = opsDone, checks
		out.RunMs = time.Since(t1).Milliseconds()
		finishC09(s, out)
		emit(out)
		os.Exit(0)
	}
	r := simrt.Run(cfg, fns, abort)
	fromSim(r, out)
	out.OpsDone, out.Checks = opsDone, checks
	out.RunMs = time.Since(t1).Milliseconds()
	finishC09(s, out)
	emit(out)
}

func finishC09(s *spec.Spec, out *spec.Result) {
	out.Sig = out.ConflictSig
	// non-trivial: at least one preemption happened inside a library call, or
	// (single-task history runs) at least two operations executed in one process
	if len(s.Tasks) == 1 {
		out.NonTrivial = out.OpsDone >= 2
		out.Sig = "seq:" + out.LogHash
	} else {
		out.NonTrivial = out.InCall > 0
	}
}
