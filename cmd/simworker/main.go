// Command simworker executes ONE simulated run per process against the
// instrumented copy of lunar-go.
//
//	simworker run    < spec.json   > result.json
//	simworker oracle < oracle-request.json > digest      (one op, fresh process, pass-through simrt)
//
// Exit status 0 with a JSON result (status ok|violation|internal); anything
// else is machinery trouble.
package main

import (
	"bytes"
	"encoding/json"
	"fmt"
	"io"
	"os"
	"os/exec"
	"strconv"
	"strings"
	"sync"
	"sync/atomic"
	"time"
	_ "time/tzdata"

	"github.com/6tail/lunar-go/simrt"
	"verif/harness/ops"
	"verif/harness/spec"
)

type oracleReq struct {
	Op    ops.Op     `json:"op"`
	Clock spec.Clock `json:"clock"`
}

var startWall = time.Now()

// currentCall names the library call the (single running) task is inside, for the watchdog report.
var currentCall [64]atomic.Value

func setCall(s string) {
	id := simrt.CurTask()
	if id < 0 {
		id = 0
	}
	currentCall[id%64].Store(s)
}

var oracleMs sync.Map

func oracleMsOf(call string) int64 {
	if v, ok := oracleMs.Load(call); ok {
		return v.(int64)
	}
	return -1
}

func setClock(c spec.Clock) {
	time.Local = time.FixedZone(fmt.Sprintf("SIM%+d", c.ZoneS), c.ZoneS)
	if c.Zone != "" {
		loc, err := time.LoadLocation(c.Zone) // from the embedded time/tzdata
		if err != nil {
			fatal("zone %q: %v", c.Zone, err)
		}
		time.Local = loc
	}
	if c.Now == "" {
		return
	}
	t, err := time.Parse(time.RFC3339Nano, c.Now)
	if err != nil {
		fatal("bad clock %q: %v", c.Now, err)
	}
	tick := time.Duration(c.TickNs)
	simrt.SetClock(t, tick)
}

func fatal(f string, a ...interface{}) {
	fmt.Fprintf(os.Stderr, "simworker: "+f+"\n", a...)
	os.Exit(2)
}

func emit(r *spec.Result) {
	b, _ := json.Marshal(r)
	os.Stdout.Write(b)
	os.Stdout.Write([]byte("\n"))
}

func main() {
	if len(os.Args) < 2 {
		fatal("usage: simworker run|oracle")
	}
	// wall-clock watchdog: the worker only REPORTS that it is stuck and in which call; the driver
	// re-runs the spec alone before it draws any conclusion
	wd := 45
	if v := os.Getenv("VERIF_WATCHDOG_S"); v != "" {
		if n, err := strconv.Atoi(v); err == nil && n > 0 {
			wd = n
		}
	}
	go func() {
		time.Sleep(time.Duration(wd) * time.Second)
		if c, _ := currentCall[func() int {
			if id := simrt.CurTask(); id >= 0 {
				return id % 64
			}
			return 0
		}()].Load().(string); c == "" && os.Args[1] == "run" {
			// not inside a library call: the harness's own work (oracle processes, the tie scan, the model) gets three
			// periods before the run is handed back as slow
			time.Sleep(time.Duration(2*wd) * time.Second)
		}
		id := simrt.CurTask()
		if id < 0 {
			id = 0
		}
		cur, _ := currentCall[id%64].Load().(string)
		if os.Args[1] == "run" && cur != "" {
			emit(&spec.Result{Status: "stuck", Internal: fmt.Sprintf("no return after %d s of wall clock", wd),
				Violation: &spec.Violation{Class: "NO_PROGRESS", Key: "call did not return: " + strings.SplitN(strings.SplitN(cur, "(", 2)[0], " ", 2)[0],
					Detail: map[string]string{"call": cur, "waited_s": fmt.Sprint(wd), "fresh_process_ms": fmt.Sprint(oracleMsOf(cur)),
						"note": "the same call, made first in a fresh process, returned; here it did not return (scheduler was not waiting: the task was running)"}}})
			os.Exit(0)
		}
		if os.Args[1] == "run" {
			// not inside a library call: the harness itself (oracle processes, model, tie scan) is slow on a
			// loaded machine; the driver re-runs the spec alone with a long limit before it gives up
			emit(&spec.Result{Status: "slow", Internal: fmt.Sprintf("harness phase exceeded %d s of wall clock", wd)})
			os.Exit(0)
		}
		fmt.Fprintf(os.Stderr, "simworker: watchdog: exceeded %d s of wall clock\n", wd)
		os.Exit(4)
	}()
	in, err := io.ReadAll(os.Stdin)
	if err != nil {
		fatal("stdin: %v", err)
	}
	switch os.Args[1] {
	case "oracle":
		var q oracleReq
		if err := json.Unmarshal(in, &q); err != nil {
			fatal("oracle request: %v", err)
		}
		setClock(q.Clock)
		simrt.Solo = true
		simrt.SoloFail = func(class, key string, d map[string]string) {
			b, _ := json.Marshal(spec.Violation{Class: class, Key: key, Detail: d})
			os.Stdout.WriteString("\x00VIOLATION" + string(b))
			os.Exit(0)
		}
		d := ops.Run(q.Op)
		d = fmt.Sprintf("\x01STEPS=%d\x01", simrt.SoloSteps) + d
		how := "after returning"
		if strings.Contains(d, "PANIC") {
			how = "after a recovered panic"
		}
		simrt.SoloEnd(how)
		os.Stdout.WriteString(d)
	case "run":
		var s spec.Spec
		if err := json.Unmarshal(in, &s); err != nil {
			fatal("spec: %v", err)
		}
		logPath := ""
		if len(os.Args) > 2 {
			logPath = os.Args[2]
		}
		switch s.Property {
		case "C09":
			runC09(&s, logPath)
		case "C10":
			runC10(&s, logPath)
		case "C14":
			runC14(&s, logPath)
		default:
			fatal("unknown property %q", s.Property)
		}
	default:
		fatal("unknown mode %q", os.Args[1])
	}
}

// freshDigest obtains the history-free answer for op: a new process in which
// op is the first and only library call.
func freshDigest(op ops.Op, c spec.Clock) (string, error) {
	req, _ := json.Marshal(oracleReq{Op: op, Clock: c})
	t0 := time.Now()
	defer func() { oracleMs.Store(op.String(), time.Since(t0).Milliseconds()) }()
	cmd := exec.Command(os.Args[0], "oracle")
	cmd.Stdin = bytes.NewReader(req)
	var out, errb bytes.Buffer
	cmd.Stdout = &out
	cmd.Stderr = &errb
	done := make(chan error, 1)
	if err := cmd.Start(); err != nil {
		return "", err
	}
	go func() { done <- cmd.Wait() }()
	select {
	case err := <-done:
		if err != nil {
			return "", fmt.Errorf("oracle process: %v: %s", err, strings.TrimSpace(errb.String()))
		}
	case <-time.After(20 * time.Second):
		cmd.Process.Kill()
		return "", fmt.Errorf("oracle process timed out for %s", op)
	}
	if strings.HasPrefix(out.String(), "\x00VIOLATION") {
		var v spec.Violation
		if err := json.Unmarshal([]byte(strings.TrimPrefix(out.String(), "\x00VIOLATION")), &v); err != nil {
			return "", err
		}
		if v.Detail == nil {
			v.Detail = map[string]string{}
		}
		v.Detail["op"] = op.String()
		v.Detail["where"] = "single call (and its digest) in a fresh process"
		return "", &oracleViolation{v}
	}
	res := out.String()
	if strings.HasPrefix(res, "\x01STEPS=") {
		if i := strings.Index(res[1:], "\x01"); i > 0 {
			n, _ := strconv.ParseUint(res[len("\x01STEPS="):i+1], 10, 64)
			oracleSteps.Store(op.String(), n)
			res = res[i+2:]
		}
	}
	return res, nil
}

var oracleSteps sync.Map

// callBudgetOf: a call may take 30 times the instrumented accesses it needs in a fresh process, and never less than
// 40 million (every cache miss, eviction by neighbours and digest depth is far inside that).
func callBudgetOf(call string) uint64 {
	b := uint64(40_000_000)
	if v, ok := oracleSteps.Load(call); ok {
		if x := v.(uint64) * 30; x > b {
			b = x
		}
	}
	return b * budgetX()
}

// budgetX: the first time a call exceeds its step budget the worker only reports it as "stuck"; the driver re-runs the
// spec alone with ten times the budget (VERIF_BUDGET_X=10) before it concludes anything - the same two-step rule as for
// the wall-clock watchdog. (A call can legitimately need far more steps than in a fresh process when other callers
// keep evicting what it caches: refactoring rH needed more than 30x for one fortune digest under five evicting tasks.)
func budgetX() uint64 {
	if v := os.Getenv("VERIF_BUDGET_X"); v != "" {
		if n, err := strconv.ParseUint(v, 10, 64); err == nil && n >= 1 {
			return n
		}
	}
	return 1
}

type oracleViolation struct{ v spec.Violation }

func (o *oracleViolation) Error() string { return o.v.Class + " " + o.v.Key }

func fromSim(r *simrt.Result, out *spec.Result) {
	out.Steps, out.Eligible, out.Switches, out.InCall = r.Steps, r.Eligible, r.Switches, r.InCall
	out.LogHash, out.ConflictSig = r.LogHash, r.ConflictSig
	out.Faults, out.Probes, out.KnownHits, out.Locations = r.Faults, r.Probes, r.KnownHits, r.Locations
	for _, d := range r.Decisions {
		out.Decisions = append(out.Decisions, spec.Decision{T: d.T, L: d.L, To: d.To, Forced: d.Forced, Sel: d.Sel})
	}
	if r.Violation != nil {
		out.Status = "violation"
		out.Violation = &spec.Violation{Class: r.Violation.Class, Key: r.Violation.Key, Detail: r.Violation.Detail}
		if r.Violation.Class == "NO_PROGRESS" && budgetX() == 1 {
			out.Status = "stuck" // a suspicion: the driver confirms it alone, with ten times the budget
		}
	} else if r.Internal != "" {
		out.Status = "internal"
		out.Internal = r.Internal
	} else {
		out.Status = "ok"
	}
}

func simConfig(s *spec.Spec, logPath string) simrt.Config {
	c := simrt.Config{
		Seed: s.Seed ^ uint64(s.Run)*0x9e3779b97f4a7c15, Policy: s.Config.Policy, SwitchP: s.Config.SwitchP,
		PCTDepth: s.Config.PCTDepth, PCTSpan: s.Config.PCTSpan, Targeted: s.Config.Targeted,
		StallP: s.Config.StallP, StepCap: s.Config.StepCap, LogPath: logPath,
	}
	if c.StepCap == 0 && budgetX() > 1 {
		c.StepCap = 600_000_000 * budgetX()
	}
	c.Faults.Stall = s.Config.Faults.Stall
	if s.Decisions != nil {
		c.Replay = true
		for _, d := range s.Decisions {
			c.Decisions = append(c.Decisions, simrt.Decision{T: d.T, L: d.L, To: d.To, Forced: d.Forced, Sel: d.Sel})
		}
	}
	for _, k := range s.Ignore {
		if strings.HasPrefix(k, "DATA_RACE ") {
			c.IgnoreRaces = append(c.IgnoreRaces, strings.TrimPrefix(k, "DATA_RACE "))
		}
	}
	if s.Config.Faults.MapOrder {
		simrt.MapSalt = s.Config.MapSalt
	}
	return c
}
