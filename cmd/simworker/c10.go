package main

import (
	"container/list"
	"fmt"
	"sort"
	"strings"
	"time"

	"github.com/6tail/lunar-go/calendar"
	"github.com/6tail/lunar-go/simrt"
	"verif/harness/spec"
)

var jieNames = []string{"小寒", "立春", "惊蛰", "清明", "立夏", "芒种", "小暑", "立秋", "白露", "寒露", "立冬", "大雪"}

type moment [6]int

func (m moment) String() string {
	return fmt.Sprintf("%04d-%02d-%02d %02d:%02d:%02d", m[0], m[1], m[2], m[3], m[4], m[5])
}

func (m moment) less(o moment) bool {
	for i := 0; i < 6; i++ {
		if m[i] != o[i] {
			return m[i] < o[i]
		}
	}
	return false
}

func ofSolar(s *calendar.Solar) moment {
	return moment{s.GetYear(), s.GetMonth(), s.GetDay(), s.GetHour(), s.GetMinute(), s.GetSecond()}
}

func (m moment) solar() *calendar.Solar {
	return calendar.NewSolar(m[0], m[1], m[2], m[3], m[4], m[5])
}

// addSeconds shifts a civil moment using the library's own day stepping.
func addSeconds(m moment, off int) moment {
	sec := m[3]*3600 + m[4]*60 + m[5] + off
	days := 0
	for sec < 0 {
		sec += 86400
		days--
	}
	for sec >= 86400 {
		sec -= 86400
		days++
	}
	d := calendar.NewSolarFromYmd(m[0], m[1], m[2])
	if days != 0 {
		d = d.NextDay(days)
	}
	return moment{d.GetYear(), d.GetMonth(), d.GetDay(), sec / 3600, sec / 60 % 60, sec % 60}
}

func pillars(m moment, sect int) [4]string {
	ec := m.solar().GetLunar().GetEightChar()
	ec.SetSect(sect)
	return [4]string{ec.GetYear(), ec.GetMonth(), ec.GetDay(), ec.GetTime()}
}

// sameSlot: is r in the two-hour slot of m under the given convention?
func sameSlot(m, r moment, sect int) bool {
	sameDay := func(a, b moment) bool { return a[0] == b[0] && a[1] == b[1] && a[2] == b[2] }
	h := m[3]
	switch {
	case h >= 1 && h <= 22:
		lo := ((h+1)/2)*2 - 1
		return sameDay(m, r) && (r[3] == lo || r[3] == lo+1)
	case h == 23:
		if sameDay(m, r) && r[3] == 23 {
			return true
		}
		if sect == 1 {
			n := addSeconds(moment{m[0], m[1], m[2], 0, 0, 0}, 86400)
			return sameDay(n, r) && r[3] == 0
		}
		return false
	default: // h == 0
		if sameDay(m, r) && r[3] == 0 {
			return true
		}
		if sect == 1 {
			p := addSeconds(moment{m[0], m[1], m[2], 0, 0, 0}, -86400)
			return sameDay(p, r) && r[3] == 23
		}
		return false
	}
}

// slotBounds returns the first second of m's slot and its length in seconds.
func slotBounds(m moment, sect int) (moment, int) {
	h := m[3]
	day0 := moment{m[0], m[1], m[2], 0, 0, 0}
	switch {
	case h >= 1 && h <= 22:
		lo := ((h+1)/2)*2 - 1
		return moment{m[0], m[1], m[2], lo, 0, 0}, 7200
	case h == 23:
		if sect == 1 {
			return moment{m[0], m[1], m[2], 23, 0, 0}, 7200
		}
		return moment{m[0], m[1], m[2], 23, 0, 0}, 3600
	default:
		if sect == 1 {
			return addSeconds(day0, -3600), 7200
		}
		return day0, 3600
	}
}

func secondsBetween(a, b moment) int {
	// b - a for moments at most a few days apart
	da := calendar.NewSolarFromYmd(a[0], a[1], a[2])
	db := calendar.NewSolarFromYmd(b[0], b[1], b[2])
	return db.Subtract(da)*86400 + (b[3]*3600 + b[4]*60 + b[5]) - (a[3]*3600 + a[4]*60 + a[5])
}

type c10 struct {
	s        *spec.Spec
	out      *spec.Result
	resolved []string
	checks   uint64
	step     int
	sigParts []string
	results  []string
	t0       time.Time
	firstNow time.Time
	lastNow  time.Time
	// concurrent callers
	multi      bool
	moments    []moment
	haveMoment []bool
	yearLog    []int // local civil year after every clock or zone fault, in the order they happened
	inCall     int   // callers inside the library right now
}

func (c *c10) fail(class, key string, d map[string]string) {
	d["lookup"] = fmt.Sprint(c.step)
	d["lookups_so_far"] = strings.Join(c.resolved, " ; ")
	if c.multi {
		// through the scheduler, so that the schedule up to this point is part of the result (replay, shrinking)
		simrt.Fail(class, key, d)
		select {}
	}
	c.out.Status = "violation"
	c.out.Violation = &spec.Violation{Class: class, Key: key, Detail: d}
	c.finish()
}

func (c *c10) finish() {
	c.out.Checks = c.checks
	c.out.Resolved = c.resolved
	c.out.OpsDone = c.step
	c.out.Sig = fmt.Sprintf("%x", fnv(strings.Join(c.sigParts, ";")))
	c.out.LogHash = fmt.Sprintf("%016x", fnv(strings.Join(c.resolved, "\n")+"|"+strings.Join(c.results, "\n")))
	c.out.NonTrivial = probesC["complete_checked"] > 0
	if c.out.Status == "" {
		c.out.Status = "ok"
	}
	c.out.Probes = probesC
	c.out.Faults = faultsC
	c.out.RunMs = time.Since(c.t0).Milliseconds()
	if !c.firstNow.IsZero() {
		c.out.SimSpanS = c.lastNow.Sub(c.firstNow).Seconds()
		if c.out.SimSpanS < 0 {
			c.out.SimSpanS = -c.out.SimSpanS
		}
	}
	emit(c.out)
	exitNow()
}

var faultsC = map[string]uint64{}

// jiePredicates describes how m sits relative to a Jie instant inside its slot.
func jiePredicates(m moment, sect int) (preds []string) {
	start, length := slotBounds(m, sect)
	tbl := m.solar().GetLunar().GetJieQiTable()
	var names []string
	for k := range tbl {
		names = append(names, k)
	}
	sort.Strings(names)
	jieSet := map[string]bool{"DA_XUE": true, "XIAO_HAN": true, "LI_CHUN": true, "JING_ZHE": true}
	for _, n := range jieNames {
		jieSet[n] = true
	}
	for _, n := range names {
		if !jieSet[n] {
			continue
		}
		j := ofSolar(tbl[n])
		if j[0] < start[0]-1 || j[0] > start[0]+1 {
			continue
		}
		off := secondsBetween(start, j)
		if off < 0 || off >= length {
			continue
		}
		preds = append(preds, "slot_contains_jie")
		if off < 3600 {
			preds = append(preds, "jie_in_first_hour_of_slot")
		} else {
			preds = append(preds, "jie_in_second_hour_of_slot")
		}
		if m.less(j) {
			preds = append(preds, "moment_before_jie")
		} else {
			preds = append(preds, "moment_at_or_after_jie")
		}
		mo := secondsBetween(start, m)
		if (mo < 3600) == (off < 3600) {
			preds = append(preds, "moment_in_same_hour_as_jie")
		} else {
			preds = append(preds, "moment_in_other_hour_than_jie")
		}
		break
	}
	return
}

func runC10(s *spec.Spec, logPath string) {
	setClock(s.Clock)
	if s.Clock.Zone != "" {
		probesC["process_zone_named"]++
	}
	c := &c10{s: s, out: &spec.Result{}, t0: time.Now()}
	c.moments = make([]moment, len(s.Lookups))
	c.haveMoment = make([]bool, len(s.Lookups))
	nTasks := 1
	for _, lk := range s.Lookups {
		if lk.Task+1 > nTasks {
			nTasks = lk.Task + 1
		}
	}
	if nTasks > 1 {
		c.runMulti(nTasks, logPath)
		return
	}
	simrt.Solo = true
	simrt.SoloFail = func(class, key string, d map[string]string) { c.fail(class, key, d) }
	if len(s.Lookups) >= 40 {
		// volume fault: a long session - tens to hundreds of lookups in one process, every one of them checked
		probesC["long_session_runs"]++
		probesC["lookups_in_long_sessions"] += uint64(len(s.Lookups))
		if len(s.Lookups) > 128 {
			probesC["long_session_over_128_lookups"]++
		}
	}
	for i, lk := range s.Lookups {
		c.lookup(i, lk)
	}
	c.step = len(s.Lookups)
	c.finish()
}

// runMulti: several callers make their lookups at the same time under the simulator's scheduler, and the clock and
// zone faults of one caller land in the middle of the others' calls. Only the C10 oracle speaks here: what the
// scheduler-level monitors see (a race, a blocked call) is C09's subject and ends the run without a verdict.
func (c *c10) runMulti(nTasks int, logPath string) {
	c.multi = true
	probesC["concurrent_callers_run"]++
	// tie moments are found by scanning up to 2500 years of term tables: harness work, done before the callers start
	// (with the window that the initial clock gives) instead of inside a scheduled task
	for i, lk := range c.s.Lookups {
		if lk.Tie == nil {
			continue
		}
		func() {
			defer func() { recover() }()
			nowT, _ := simrt.PeekClock()
			ties := scanTies(lk.Base, nowT.In(time.Local).Year(), lk.Tie.Pick)
			if len(ties) > 0 {
				c.moments[i], c.haveMoment[i] = addSeconds(ties[lk.Tie.Pick%uint64(len(ties))], lk.Tie.OffS), true
			}
		}()
	}
	fns := make([]func(), nTasks)
	for t := 0; t < nTasks; t++ {
		t := t
		fns[t] = func() {
			for i, lk := range c.s.Lookups {
				if lk.Task == t {
					c.lookup(i, lk)
				}
			}
		}
	}
	cfg := simConfig(c.s, logPath)
	abort := func(r *simrt.Result) {
		if r != nil && r.Violation != nil {
			switch r.Violation.Class {
			case "UNSOUND", "INCOMPLETE", "UNSORTED", "LOOKUP_PANIC":
				c.out.Status = "violation"
				c.out.Violation = &spec.Violation{Class: r.Violation.Class, Key: r.Violation.Key, Detail: r.Violation.Detail}
			default:
				probesC["concurrent_run_ended_by_scheduler_monitor_"+r.Violation.Class]++
			}
		}
		if r != nil && r.Violation == nil && r.Internal != "" {
			c.out.Status, c.out.Internal = "internal", r.Internal
		}
		c.decisionsFrom(r)
		c.finish()
	}
	r := simrt.Run(cfg, fns, abort)
	c.decisionsFrom(r)
	c.step = len(c.s.Lookups)
	c.finish()
}

func (c *c10) decisionsFrom(r *simrt.Result) {
	if r == nil {
		return
	}
	tmp := &spec.Result{}
	fromSim(r, tmp)
	c.out.Decisions, c.out.Steps, c.out.Switches, c.out.InCall, c.out.Eligible = tmp.Decisions, tmp.Steps, tmp.Switches, tmp.InCall, tmp.Eligible
}

// lookup resolves, performs and checks one reverse lookup.
func (c *c10) lookup(i int, lk spec.Lookup) {
	c.step = i
	if lk.Clock != nil {
		setClock(*lk.Clock)
		faultsC[lk.Fault]++
		if lk.Clock.Zone != "" {
			probesC["process_zone_named"]++
		}
		if lk.Fault == "clock_jump" {
			probesC["clock_jump_between_lookups"]++
		} else {
			probesC["zone_change_between_lookups"]++
		}
		if c.multi {
			nowT, _ := simrt.PeekClock()
			c.yearLog = append(c.yearLog, nowT.In(time.Local).Year())
			if c.inCall > 0 {
				probesC["clock_fault_while_another_caller_is_inside_a_lookup"]++
			}
		}
	}
	// resolve M
	var m moment
	ok := true
	func() {
		defer func() {
			if r := recover(); r != nil {
				ok = false
			}
		}()
		switch {
		case lk.Tie != nil && c.multi:
			if !c.haveMoment[i] {
				ok = false
				return
			}
			m = c.moments[i]
			probesC["jie_on_full_hour"]++
		case lk.Tie != nil:
			nowT, _ := simrt.PeekClock()
			ties := scanTies(lk.Base, nowT.In(time.Local).Year(), lk.Tie.Pick)
			if len(ties) == 0 {
				ok = false
				return
			}
			m = addSeconds(ties[lk.Tie.Pick%uint64(len(ties))], lk.Tie.OffS)
			probesC["jie_on_full_hour"]++
		case lk.Repeat != nil && *lk.Repeat < len(c.moments) && c.haveMoment[*lk.Repeat]:
			m = c.moments[*lk.Repeat]
			probesC["repeat_pillars_other_clock"]++
		case lk.Jie != nil:
			tbl := calendar.NewSolarFromYmd(lk.Jie.Year, 6, 15).GetLunar().GetJieQiTable()
			j := tbl[jieNames[lk.Jie.Idx%12]]
			m = addSeconds(ofSolar(j), lk.Jie.OffS)
		default:
			m = moment(lk.Moment)
		}
		m.solar() // validates
	}()
	c.moments[i], c.haveMoment[i] = m, true
	if !ok || m[0] < 1 || m[0] > 9990 {
		c.resolved = append(c.resolved, "skipped(invalid moment)")
		return
	}
	argSect := lk.Sect // passed to the library as is; anything but 1 means convention 2
	sect := lk.Sect
	if sect != 1 {
		sect = 2
	}
	if argSect != sect {
		probesC["sect_argument_other_than_1_or_2"]++
	}
	p := pillars(m, sect)
	// the clock value the lookup is about to read
	now, have := simrt.PeekClock()
	if !have {
		fatal("C10 needs a simulated clock")
	}
	if c.firstNow.IsZero() {
		c.firstNow = now
	}
	c.lastNow = now
	// "the current year" is the civil year of the caller's wall clock, i.e. in the process-local zone
	// (that is what the library reads, and what an independent reader of the statement took it to mean:
	// seeded change c10e, which reads the year in UTC, loses the rest of the local year for up to 14 hours
	// after a local New Year east of Greenwich)
	curL, curU := now.In(time.Local).Year(), now.UTC().Year()
	cur := curL
	base := lk.Base
	if lk.API != 0 {
		base = 1900
	}
	desc := fmt.Sprintf("lookup(M=%s pillars=%s sect=%d base=%d api=%d now=%s zone=%+ds why=%s)", m, strings.Join(p[:], " "), argSect, base, lk.API,
		now.UTC().Format(time.RFC3339Nano), zoneOf(now), lk.Why)
	c.resolved = append(c.resolved, desc)
	c.sigParts = append(c.sigParts, fmt.Sprintf("%s|%d|%d|%d|%d", m, sect, base, lk.API, curL))
	setCall("lookup " + desc)
	reads0 := simrt.ClockReads
	log0 := len(c.yearLog)
	c.inCall++
	if c.multi {
		simrt.BeginCall()
		simrt.CallBudget(5*callBudgetOf(desc), desc)
	}
	if c.multi && c.inCall > 1 {
		probesC["lookups_overlapping_in_time"]++
	}
	var l *list.List
	if pn := safe(func() {
		switch lk.API {
		case 0:
			l = calendar.ListSolarFromBaZiBySectAndBaseYear(p[0], p[1], p[2], p[3], argSect, base)
		case 1:
			l = calendar.ListSolarFromBaZiBySect(p[0], p[1], p[2], p[3], argSect)
		default:
			l = calendar.ListSolarFromBaZi(p[0], p[1], p[2], p[3])
		}
	}); pn != nil {
		c.fail("LOOKUP_PANIC", "lookup_panicked", map[string]string{"call": desc, "panic": fmt.Sprint(pn)})
	}
	setCall("")
	c.inCall--
	if c.multi {
		simrt.EndCall("after returning")
	}
	if simrt.ClockReads != reads0 {
		probesC["clock_read_by_lookup"]++
	}
	if c.multi {
		// the call overlapped other callers' clock and zone faults: "the current year" it may have read is any of the
		// local years between its start and its return, so completeness is demanded up to the smallest of them
		end, _ := simrt.PeekClock()
		if y := end.In(time.Local).Year(); y < cur {
			cur = y
		}
		for _, y := range c.yearLog[log0:] {
			if y < cur {
				cur = y
			}
		}
		if cur != curL {
			probesC["current_year_changed_during_lookup"]++
		}
	}
	var res []moment
	for e := l.Front(); e != nil; e = e.Next() {
		res = append(res, ofSolar(e.Value.(*calendar.Solar)))
	}
	var rs []string
	for _, r := range res {
		rs = append(rs, r.String())
	}
	got := strings.Join(rs, ", ")
	c.results = append(c.results, got)
	// (c) strictly increasing
	c.checks++
	for k := 1; k < len(res); k++ {
		if !res[k-1].less(res[k]) {
			c.fail("UNSORTED", "not_strictly_increasing", map[string]string{"call": desc, "got": got})
		}
	}
	// (b) sound
	for _, r := range res {
		c.checks++
		if r[0] < base {
			c.fail("UNSOUND", "result_before_base_year", map[string]string{"call": desc, "result": r.String(), "got": got})
		}
		if q := pillars(r, sect); q != p {
			c.fail("UNSOUND", "result_has_other_pillars", map[string]string{"call": desc, "result": r.String(), "its_pillars": strings.Join(q[:], " "), "got": got})
		}
	}
	// (a) complete, when M lies between the first Jie of the base year and the end of the current year
	// lower bound: the first Jie term that falls in civil year `base` (Xiaohan in Gregorian years; in
	// Julian-calendar years Xiaohan falls in late December of the year before, and the first Jie of the
	// civil year is Lichun)
	baseTbl := calendar.NewSolarFromYmd(base, 6, 15).GetLunar().GetJieQiTable()
	var firstJie moment
	haveFirst := false
	for _, jn := range jieNames {
		j := ofSolar(baseTbl[jn])
		if j[0] == base && (!haveFirst || j.less(firstJie)) {
			firstJie, haveFirst = j, true
		}
	}
	if haveFirst && !m.less(firstJie) && m[0] <= cur {
		c.checks++
		probesC["complete_checked"]++
		preds := jiePredicates(m, sect)
		for _, pr := range preds {
			if pr == "slot_contains_jie" || pr == "jie_in_first_hour_of_slot" {
				probesC[pr]++
			}
		}
		if m[3] == 23 || m[3] == 0 {
			probesC["rat_slot"]++
		}
		if lk.Why == "lichun" {
			probesC["lichun_day"]++
		}
		if m[0] == cur {
			probesC["moment_in_current_year"]++
		}
		if base != 1900 {
			probesC["base_not_default"]++
		}
		if curL != curU || near(now) {
			probesC["near_new_year"]++
		}
		found := false
		for _, r := range res {
			if sameSlot(m, r, sect) {
				found = true
				break
			}
		}
		if !found {
			key := "no_jie_in_slot"
			if len(preds) > 0 {
				key = strings.Join(preds[1:], "&&")
			}
			if m[3] == 23 || m[3] == 0 {
				key += fmt.Sprintf("&&rat_slot_sect%d", sect)
			}
			if m[0] == cur && len(preds) == 0 {
				key += "&&moment_in_current_year"
			}
			c.fail("INCOMPLETE", key, map[string]string{"call": desc, "got": got,
				"expected": "a moment in the same two-hour slot as M", "current_year_local": fmt.Sprint(curL), "current_year_utc": fmt.Sprint(curU)})
		}
	} else {
		probesC["outside_completeness_range"]++
		if lk.Why == "just_before_base" {
			probesC["pillars_of_a_moment_just_before_base"]++
		}
	}
	// the caller owns the list it received: use it destructively (drain, reverse, append); a later lookup
	// must not be affected
	if l != nil {
		switch (c.s.Seed + uint64(i)*7 + uint64(c.s.Run)) % 4 {
		case 0:
			l.Init()
		case 1:
			for e := l.Front(); e != nil; {
				n := e.Next()
				l.MoveToFront(e)
				e = n
			}
		case 2:
			if l.Len() > 0 {
				l.Remove(l.Front())
			}
			l.PushBack(calendar.NewSolarFromYmd(base-1, 1, 1))
		}
		probesC["result_list_mutated_by_caller"]++
	}
}

func zoneOf(t time.Time) int {
	_, off := t.In(time.Local).Zone()
	return off
}

func near(t time.Time) bool {
	l := t.In(time.Local)
	a := l.Add(2 * time.Second)
	b := l.Add(-2 * time.Second)
	return a.Year() != l.Year() || b.Year() != l.Year()
}

var tieCache = map[[2]int][]moment{}

// scanTies lists the Jie instants between the base year and the current year (a window of at most 2500 years,
// placed by pick) that fall exactly on a full hour.
func scanTies(base, cur int, pick uint64) []moment {
	lo, hi := base, cur
	if lo < 1 {
		lo = 1
	}
	if hi > 9990 {
		hi = 9990
	}
	if hi-lo > 2500 {
		lo = lo + int((pick>>20)%uint64(hi-lo-2500))
		hi = lo + 2500
	}
	key := [2]int{lo, hi}
	if t, ok := tieCache[key]; ok {
		return t
	}
	var out []moment
	for y := lo; y <= hi; y++ {
		func() {
			defer func() { recover() }()
			tbl := calendar.NewSolarFromYmd(y, 6, 15).GetLunar().GetJieQiTable()
			for _, n := range jieNames {
				j := tbl[n]
				if j != nil && j.GetMinute() == 0 && j.GetSecond() == 0 && j.GetYear() >= lo {
					out = append(out, ofSolar(j))
				}
			}
		}()
	}
	tieCache[key] = out
	return out
}
