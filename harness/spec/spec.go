// Package spec defines the run specification exchanged between the driver
// (cmd/vsim), the workers and replay files. It has no dependency on simrt or
// on the library, so every binary can import it.
package spec

import (
	"time"

	"verif/harness/ops"
)

type Decision struct {
	T      int    `json:"t"`
	L      uint64 `json:"l"`
	To     int    `json:"to"`
	Forced bool   `json:"f,omitempty"`
	Sel    bool   `json:"sel,omitempty"`
}

type Faults struct {
	InvalidPanic bool `json:"invalid_panic"`
	Stall        bool `json:"stall"`
	Evict        bool `json:"evict"`
	ClockJump    bool `json:"clock_jump"`
	ZoneChange   bool `json:"zone_change"`
	MapOrder     bool `json:"map_order"`
	Flood        bool `json:"flood,omitempty"`
}

type Config struct {
	Policy   string  `json:"policy"`
	SwitchP  float64 `json:"switch_p,omitempty"`
	PCTDepth int     `json:"pct_depth,omitempty"`
	PCTSpan  int     `json:"pct_span,omitempty"`
	Targeted []int   `json:"targeted_classes,omitempty"`
	StallP   float64 `json:"stall_p,omitempty"`
	Faults   Faults  `json:"faults"`
	StepCap  uint64  `json:"step_cap,omitempty"`
	MapSalt  uint64  `json:"map_salt,omitempty"`
}

type Clock struct {
	Now    string `json:"now"` // RFC3339Nano, UTC
	ZoneS  int    `json:"zone_offset_s"`
	Zone   string `json:"zone,omitempty"` // IANA name; when set it replaces the fixed offset (zones with daylight-saving rules)
	TickNs int64  `json:"tick_ns"`
}

// Step is one entry of a task script (C09).
type Step struct {
	U     *int   `json:"u,omitempty"`     // run universe[u] and compare with the oracle
	Pub   *Pub   `json:"pub,omitempty"`   // construct universe[u] and publish it in slot
	Read  *Pub   `json:"read,omitempty"`  // read accessors of slot; universe[u] is the matching "sub" op
	Clock *int64 `json:"clock,omitempty"` // advance the simulated wall clock by this many seconds (fault clock_jump)
	// Fault marks a step that the generator inserted as a fault (invalid input, evictor); informational
	Fault string `json:"fault,omitempty"`
	// Flood: a volume fault - Count distinct valid calls of one kind made back to back, none of them compared (they are
	// load: what pushes a bounded cache, pool or table in the library past its capacity); the witnesses around it are
	Flood *Flood `json:"flood,omitempty"`
}

// Flood describes Count calls derived from one template: call i is Op with its year (Unit "year": first argument) or its
// civil day (Unit "day": first three arguments, stepped through Go's time package in UTC) moved on by i*Stride.
type Flood struct {
	Op     ops.Op `json:"op"`
	Unit   string `json:"unit"`
	Count  int    `json:"count"`
	Stride int    `json:"stride"`
}

type Pub struct {
	Slot int `json:"slot"`
	U    int `json:"u"`
}

type Task struct {
	Ops  []Step `json:"ops"`
	Role string `json:"role,omitempty"` // "", "evictor"
}

// Lookup is one reverse eight-character lookup (C10).
type Lookup struct {
	Clock  *Clock  `json:"clock,omitempty"`  // set before the call if non-nil (fault step)
	Fault  string  `json:"fault,omitempty"`  // clock_jump | zone_change | ""
	Moment [6]int  `json:"moment"`           // y,m,d,h,mi,s of M (when Jie and Repeat are nil)
	Jie    *JieRef `json:"jie,omitempty"`    // M = instant of a Jie term + offset, resolved by the worker from the library's term table
	Repeat *int    `json:"repeat,omitempty"` // M = the moment of an earlier lookup of this run
	Tie    *TieRef `json:"tie,omitempty"`    // M = a Jie instant that falls exactly on a full hour (hh:00:00) between base and now, + offset
	Sect   int     `json:"sect"`
	Base   int     `json:"base"` // 0 = use the API without base year (default 1900)
	API    int     `json:"api"`  // 0 BySectAndBaseYear, 1 BySect, 2 plain (sect 2)
	Why    string  `json:"why,omitempty"`
	Task   int     `json:"task,omitempty"` // concurrent-caller runs: the caller that makes this lookup (callers run their lookups in order)
}

// JieRef names a moment relative to a Jie term instant.
type JieRef struct {
	Year int `json:"year"`  // civil year in which the term falls
	Idx  int `json:"idx"`   // 0 Xiaohan(Jan) 1 Lichun 2 Jingzhe ... 11 Daxue(Dec)
	OffS int `json:"off_s"` // seconds added to the instant (negative = before)
}

// TieRef names a moment relative to a Jie instant that coincides with a candidate time of the search (hh:00:00):
// the only places where a < versus <= between a candidate and a term instant can matter.
type TieRef struct {
	Pick uint64 `json:"pick"`
	OffS int    `json:"off_s"`
}

// HStep is one step of a holiday history (C14).
type HStep struct {
	Fix    *Fix      `json:"fix,omitempty"`         // concrete fix-up (used as is)
	Acts   []Act     `json:"acts,omitempty"`        // abstract fix-up, resolved by the worker against the table as it is at that step
	Extra  int       `json:"extra_names,omitempty"` // with Acts: pass a names list = names in use + this many new names
	Rename uint64    `json:"rename,omitempty"`      // with Acts: rename one label IN PLACE in the slice passed by an earlier fix-up and pass that same slice again (as demo/Demo.go does with NAMES)
	BadKey *string   `json:"bad_key,omitempty"`     // a malformed query whose panic is recovered
	Why    string    `json:"why,omitempty"`
	Forgot uint64    `json:"forgot,omitempty"` // non-zero: a record is added whose label the caller forgot to pass (index one past the names in use); a working-day walk over it panics and is recovered; then the caller repairs it by passing the extended names
	Flood  *DayFlood `json:"flood,omitempty"`  // volume fault: Count by-day queries of distinct days (each compared with the model), nothing else
	Quiet  bool      `json:"quiet,omitempty"`  // no query of any kind between this step and the next one (fix-ups applied back to back)
}

// DayFlood is a run of by-day queries over Count distinct civil days starting at From (YYYY-MM-DD), Stride days apart.
type DayFlood struct {
	View   string `json:"view,omitempty"` // "" by day; "year" / "ym": Count by-year / by-month queries cycling over the table's years from From's year on
	From   string `json:"from"`
	Count  int    `json:"count"`
	Stride int    `json:"stride"`
}

// Act is one abstract fix-up segment.
type Act struct {
	Kind string `json:"kind"` // add_future add_before add_between replace_flag replace_name replace_target remove remove_absent add_block same_day_again
	Pick uint64 `json:"pick"` // chooses the record / day / name deterministically
}

type Fix struct {
	Names []string `json:"names,omitempty"` // nil = keep
	Data  string   `json:"data"`
}

type Spec struct {
	V         int        `json:"v"`
	Property  string     `json:"property"`
	Seed      uint64     `json:"seed"`
	Run       int        `json:"run"`
	Config    Config     `json:"config"`
	Clock     Clock      `json:"clock"`
	Universe  []ops.Op   `json:"universe,omitempty"`
	Tasks     []Task     `json:"tasks,omitempty"`
	Lookups   []Lookup   `json:"lookups,omitempty"`
	History   []HStep    `json:"history,omitempty"`
	Samples   uint64     `json:"samples,omitempty"` // seed for sampled checks in C14
	Decisions []Decision `json:"decisions"`
	Ignore    []string   `json:"ignore,omitempty"` // known-finding keys that must not stop the run
	Note      string     `json:"note,omitempty"`
}

type Violation struct {
	Class  string            `json:"class"`
	Key    string            `json:"key"`
	Detail map[string]string `json:"detail,omitempty"`
}

// Result is what a worker prints.
type Result struct {
	Status      string            `json:"status"` // ok | violation | internal | unsupported
	Violation   *Violation        `json:"violation,omitempty"`
	Internal    string            `json:"internal,omitempty"`
	Steps       uint64            `json:"steps"`
	Eligible    uint64            `json:"eligible"`
	Switches    uint64            `json:"switches"`
	InCall      uint64            `json:"switches_in_call"`
	LogHash     string            `json:"log_hash"`
	ConflictSig string            `json:"conflict_sig"`
	Faults      map[string]uint64 `json:"fault_fired"`
	Probes      map[string]uint64 `json:"probes"`
	Decisions   []Decision        `json:"decisions"`
	KnownHits   map[string]uint64 `json:"known_hits,omitempty"`
	Locations   int               `json:"locations"`
	OpsDone     int               `json:"ops_done"`
	Checks      uint64            `json:"checks"`
	OracleMs    int64             `json:"oracle_ms"`
	RunMs       int64             `json:"run_ms"`
	SimSpanS    float64           `json:"sim_span_s,omitempty"`
	Sig         string            `json:"sig,omitempty"` // distinctness signature chosen by the property runner
	NonTrivial  bool              `json:"nontrivial"`
	Resolved    []string          `json:"resolved,omitempty"` // concrete form of abstract steps (C14 fix strings, C10 pillars)
}

// FloodOp is call i of a flood: the template with its year or civil day moved on by i*Stride. Years wrap inside
// 1..9999; days are stepped by Go's time package in UTC (proleptic Gregorian - a date the library rejects is a
// recovered panic like any other invalid input).
func FloodOp(fl *Flood, i int) ops.Op {
	op := fl.Op
	tgt := &op
	if op.Sub != nil {
		inner := *op.Sub
		op.Sub = &inner
		tgt = &inner
	}
	a := append([]int(nil), tgt.A...)
	stride := fl.Stride
	if stride == 0 {
		// hot key: four cold neighbours first (calls 0..3 = the template moved on by 1..4), then the template itself
		// for the rest of the flood
		if i < 4 {
			i, stride = i+1, 1
		} else {
			i = 0
		}
	}
	switch fl.Unit {
	case "year":
		y := (a[0] - 1 + i*stride) % 9999
		if y < 0 {
			y += 9999
		}
		a[0] = y + 1
	case "day":
		t := time.Date(a[0], time.Month(a[1]), a[2], 0, 0, 0, 0, time.UTC).AddDate(0, 0, i*stride)
		a[0], a[1], a[2] = t.Year(), int(t.Month()), t.Day()
	}
	tgt.A = a
	return op
}
