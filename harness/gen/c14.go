package gen

import (
	"verif/harness/spec"
)

// C14 generates one holiday-table history.
func C14(seed uint64, run int) *spec.Spec {
	r := NewRng(seed, 14, run)
	s := &spec.Spec{V: 1, Property: "C14", Seed: seed, Run: run, Decisions: []spec.Decision{}}
	s.Config.Policy = "seq"
	s.Clock = spec.Clock{ZoneS: 8 * 3600}
	if r.Chance(0.3) {
		// the process-local zone is part of the environment: zones with daylight-saving rules (clock changes on
		// weekdays, at midnight, by 30 minutes, a skipped calendar day) must not matter to civil-date stepping
		s.Clock.Zone = r.PickS(NamedZones)
	}
	s.Samples = r.U64()
	n := r.Range(0, 8)
	if r.Chance(0.08) {
		n = 0
	}
	kinds := []string{"add_future", "add_before", "add_between", "replace_flag", "replace_name", "replace_target", "remove", "remove_absent", "add_block", "same_day_again"}
	w := []int{22, 18, 12, 12, 8, 8, 12, 8, 7, 6}
	bad := []string{"", "2", "20", "2020-1", "202", "x", "2020010", "~", "2020-13-45", "99999999", "20200101000000000000"}
	for i := 0; i < n; i++ {
		if r.Chance(0.15) {
			k := r.PickS(bad)
			s.History = append(s.History, spec.HStep{BadKey: &k, Why: "bad_key"})
			continue
		}
		if r.Chance(0.05) {
			s.History = append(s.History, spec.HStep{Forgot: r.U64()>>1 | 1, Why: "forgotten_label_then_repair"})
			continue
		}
		st := spec.HStep{}
		k := r.Range(1, 6)
		// swarm: some histories use only one kind of segment
		only := -1
		if r.Chance(0.3) {
			only = r.Weighted(w)
		}
		for j := 0; j < k; j++ {
			ki := r.Weighted(w)
			if only >= 0 {
				ki = only
			}
			st.Acts = append(st.Acts, spec.Act{Kind: kinds[ki], Pick: r.U64() >> 1})
		}
		if r.Chance(0.3) {
			st.Extra = r.Range(1, 4)
		} else if r.Chance(0.2) {
			st.Rename = r.U64()>>1 | 1
		}
		st.Quiet = r.Chance(0.3)
		s.History = append(s.History, st)
	}
	return s
}
