package gen

import (
	"fmt"
	"math"

	"verif/harness/spec"
)

// C14 generates one holiday-table history.
func C14(seed uint64, run int) *spec.Spec {
	r := NewRng(seed, 14, run)
	s := &spec.Spec{V: 1, Property: "C14", Seed: seed, Run: run, Decisions: []spec.Decision{}}
	s.Config.Policy = "seq"
	s.Clock = spec.Clock{ZoneS: 8 * 3600}
	if r.Chance(0.3) {
		// the process-local zone is part of the environment: zones with daylight-saving rules (clock changes on
		// weekdays, at midnight, by 30 minutes, a skipped calendar day) must not matter to civil-date stepping
		s.Clock.Zone = r.PickS(NamedZones)
	}
	s.Samples = r.U64()
	n := r.Range(0, 8)
	if r.Chance(0.08) {
		n = 0
	}
	kinds := []string{"add_future", "add_before", "add_between", "replace_flag", "replace_name", "replace_target", "remove", "remove_absent", "add_block", "same_day_again"}
	w := []int{22, 18, 12, 12, 8, 8, 12, 8, 7, 6}
	bad := []string{"", "2", "20", "2020-1", "202", "x", "2020010", "~", "2020-13-45", "99999999", "20200101000000000000"}
	for i := 0; i < n; i++ {
		if r.Chance(0.15) {
			k := r.PickS(bad)
			s.History = append(s.History, spec.HStep{BadKey: &k, Why: "bad_key"})
			continue
		}
		if r.Chance(0.05) {
			s.History = append(s.History, spec.HStep{Forgot: r.U64()>>1 | 1, Why: "forgotten_label_then_repair"})
			continue
		}
		st := spec.HStep{}
		k := r.Range(1, 6)
		// swarm: some histories use only one kind of segment
		only := -1
		if r.Chance(0.3) {
			only = r.Weighted(w)
		}
		for j := 0; j < k; j++ {
			ki := r.Weighted(w)
			if only >= 0 {
				ki = only
			}
			st.Acts = append(st.Acts, spec.Act{Kind: kinds[ki], Pick: r.U64() >> 1})
		}
		if r.Chance(0.3) {
			st.Extra = r.Range(1, 4)
		} else if r.Chance(0.2) {
			st.Rename = r.U64()>>1 | 1
		}
		st.Quiet = r.Chance(0.3)
		s.History = append(s.History, st)
	}
	// volume fault, drawn from a stream of its own so that every other history stays what it was: a run of by-day
	// queries over 200..70000 distinct days (log-uniform) placed before one of the fix-ups - the only way a per-day
	// memo, index or cache generation in front of the table is pushed past its capacity inside one bounded history
	r2 := NewRng(seed, 1014, run)
	if len(s.History) > 0 && r2.Chance(0.10) {
		k := r2.Range(1, 2)
		for j := 0; j < k; j++ {
			fl := &spec.DayFlood{Count: logUniform(r2, 200, 70000), Stride: 1}
			if r2.Chance(0.2) {
				fl.Stride = r2.Range(2, 7)
			}
			span := fl.Count * fl.Stride / 365
			y := 2000 - span/2 + r2.Range(-5, 25)
			if y < 1000 {
				y = 1000
			}
			fl.From = fmtYmd(y, r2.Range(1, 12), r2.Range(1, 28))
			// a third of the floods go through another view (stream of its own): by-year or by-month queries cycling
			// over the table's years - what is kept per queried year or month, or counted per call, is pushed as well
			if r3 := NewRng(seed, 2014+uint64(j), run); r3.Chance(0.34) {
				fl.View = r3.PickS([]string{"year", "ym"})
			}
			pos := r2.Intn(len(s.History))
			st := spec.HStep{Flood: fl, Why: "flood"}
			s.History = append(s.History[:pos:pos], append([]spec.HStep{st}, s.History[pos:]...)...)
		}
	}
	return s
}

// logUniform returns a value in [lo, hi] whose logarithm is uniform.
func logUniform(r *Rng, lo, hi int) int {
	return int(float64(lo) * math.Pow(float64(hi)/float64(lo), r.Float()))
}

func fmtYmd(y, m, d int) string { return fmt.Sprintf("%04d-%02d-%02d", y, m, d) }
