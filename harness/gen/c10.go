package gen

import (
	"time"
	_ "time/tzdata"

	"verif/harness/spec"
)

// C10 generates one run of reverse eight-character lookups under a simulated
// clock and zone, with clock jumps and zone changes between calls.
// LongP is the share of C10 runs that are long sessions (volume fault).
var LongP = 0.015

func C10(seed uint64, run int) *spec.Spec {
	r := NewRng(seed, 10, run)
	s := &spec.Spec{V: 1, Property: "C10", Seed: seed, Run: run, Decisions: []spec.Decision{}}
	s.Config.Policy = "seq"
	faulty := r.Chance(0.55)
	f := &s.Config.Faults
	if faulty {
		f.ClockJump = r.Chance(0.75)
		f.ZoneChange = r.Chance(0.5)
		if !f.ClockJump && !f.ZoneChange {
			f.ClockJump = true
		}
	}
	mkClock := func() spec.Clock {
		var y int
		switch r.Weighted([]int{70, 12, 10, 8}) {
		case 0:
			y = r.Range(1970, 2200)
		case 1:
			y = r.Range(1901, 1969)
		case 2:
			y = r.Range(2201, 4000)
		default:
			y = r.Range(100, 9990)
		}
		zone := r.Range(-12, 14) * 3600
		if r.Chance(0.2) {
			zone += r.Pick([]int{1800, 2700, -1800})
		}
		var t time.Time
		if r.Chance(0.35) {
			// within +-1 s of a local New Year
			local := time.Date(y, 1, 1, 0, 0, 0, 0, time.UTC).Add(time.Duration(r.Range(-1000, 1000)) * time.Millisecond)
			t = local.Add(-time.Duration(zone) * time.Second)
		} else if r.Chance(0.2) {
			// within +-1 s of a UTC New Year
			t = time.Date(y, 1, 1, 0, 0, 0, 0, time.UTC).Add(time.Duration(r.Range(-1000, 1000)) * time.Millisecond)
		} else {
			t = time.Date(y, time.Month(r.Range(1, 12)), r.Range(1, 28), r.Intn(24), r.Intn(60), r.Intn(60), 0, time.UTC)
		}
		tick := []int64{0, 1_000_000, 400_000_000, 1_000_000_000}[r.Intn(4)]
		c := spec.Clock{Now: t.Format(time.RFC3339Nano), ZoneS: zone, TickNs: tick}
		if r.Chance(0.12) {
			c.Zone = r.PickS(NamedZones)
		}
		return c
	}
	s.Clock = mkClock()
	cur := s.Clock
	curYear := func() int {
		t, _ := time.Parse(time.RFC3339Nano, cur.Now)
		if cur.Zone != "" {
			if loc, err := time.LoadLocation(cur.Zone); err == nil {
				return t.In(loc).Year()
			}
		}
		return t.Add(time.Duration(cur.ZoneS) * time.Second).Year()
	}
	n := r.Range(1, 6)
	// volume fault, decided by a stream of its own (every other run stays what it was): a long session of 40..260
	// lookups in one process, with the clock and zone faults of the run spread over it - whatever the lookup keeps
	// between calls (results, term tables, the year it read) in a bounded structure is pushed past its capacity,
	// and every one of the lookups is checked like any other
	long := false
	if r2 := NewRng(seed, 1010, run); r2.Chance(LongP) {
		n = logUniform(r2, 40, 260)
		long = true
		f.Flood = true
	}
	for i := 0; i < n; i++ {
		lk := spec.Lookup{}
		if faulty && i > 0 && r.Chance(0.6) {
			c := cur
			if f.ClockJump && (r.Chance(0.7) || !f.ZoneChange) {
				lk.Fault = "clock_jump"
				if r.Chance(0.4) {
					nc := mkClock()
					c.Now, c.TickNs = nc.Now, nc.TickNs
				} else {
					t, _ := time.Parse(time.RFC3339Nano, cur.Now)
					d := []time.Duration{time.Second, time.Minute, time.Hour, 24 * time.Hour, 366 * 24 * time.Hour, 61 * 366 * 24 * time.Hour, 150 * 366 * 24 * time.Hour}[r.Intn(7)]
					if r.Chance(0.5) {
						d = -d
					}
					t = t.Add(d)
					if t.Year() < 2 || t.Year() > 9990 {
						t = t.Add(-2 * d)
					}
					if t.Year() >= 2 && t.Year() <= 9990 {
						c.Now = t.Format(time.RFC3339Nano)
					}
				}
			} else {
				lk.Fault = "zone_change"
				c.ZoneS = r.Range(-12, 14) * 3600
				c.Zone = ""
				if r.Chance(0.25) {
					c.Zone = r.PickS(NamedZones)
				}
			}
			cc := c
			lk.Clock = &cc
			cur = c
		}
		cy := curYear()
		// base year and API
		lk.API = r.Weighted([]int{70, 15, 15})
		lk.Sect = r.Range(1, 2)
		lk.Base = 1900
		if lk.API == 0 {
			switch r.Weighted([]int{36, 7, 7, 7, 7, 9, 9, 7, 11}) {
			case 0:
				lk.Base = 1900
			case 1:
				lk.Base = 1
			case 2:
				lk.Base = 1582
			case 3:
				lk.Base = 1600
			case 4:
				lk.Base = 1843
			case 5:
				lk.Base = 1984
			case 6:
				lk.Base = cy - 59
			case 7:
				lk.Base = cy
			default:
				// any base year, early centuries included (Julian-calendar years behave differently: the first
				// Jie of the civil year is Lichun, Xiaohan falls in the December before)
				if r.Chance(0.5) {
					lk.Base = r.Range(2, 1700)
				} else {
					lk.Base = r.Range(2, cy)
				}
			}
			if lk.Base < 1 {
				lk.Base = 1
			}
			if lk.Base > cy {
				lk.Base = cy
			}
		}
		if lk.API != 2 && r.Chance(0.12) {
			// any day-boundary argument other than 1 must behave as 2
			lk.Sect = r.Pick([]int{0, 3, -1, 7, 22})
		}
		if lk.API == 2 {
			lk.Sect = 2
		}
		lo, hi := lk.Base, cy
		if hi < lo {
			hi = lo
		}
		if hi > 9990 {
			hi = 9990
		}
		pickYear := func() int {
			if lo <= 700 && r.Chance(0.3) {
				// eras whose civil year began in the zi or chou month (lunar new year in the previous civil year), and the first years
				y := r.Pick([]int{1, 2, 8, 9, 10, 19, 22, 23, 24, 236, 237, 238, 239, 240, 689, 690, 695, 700, 701, 761, 762})
				if y >= lo && y <= hi {
					return y
				}
			}
			switch r.Weighted([]int{35, 20, 45}) {
			case 0:
				return hi
			case 1:
				return lo
			default:
				return r.Range(lo, hi)
			}
		}
		if lk.API == 0 && lk.Base > 2 && r.Chance(0.1) {
			// a moment in the last weeks BEFORE the base year: outside the completeness range, but whatever the
			// lookup returns for its pillars must still not be earlier than the base year
			lk.Moment = [6]int{lk.Base - 1, 12, r.Range(8, 31), r.Intn(24), r.Intn(60), r.Intn(60)}
			if r.Chance(0.3) {
				lk.Moment[1], lk.Moment[2] = 11, r.Range(1, 30)
			}
			lk.Why = "just_before_base"
			s.Lookups = append(s.Lookups, lk)
			continue
		}
		if lk.API == 0 && lk.Base <= 1843 && r.Chance(0.3) {
			off := 0
			switch r.Weighted([]int{45, 25, 20, 10}) {
			case 0:
				off = -r.Range(1, 3599)
			case 1:
				off = -r.Range(3600, 7199)
			case 2:
				off = r.Range(1, 3599)
			default:
				off = r.Pick([]int{0, -1, 1})
			}
			lk.Tie = &spec.TieRef{Pick: r.U64() >> 1, OffS: off}
			lk.Why = "tie"
			s.Lookups = append(s.Lookups, lk)
			continue
		}
		switch k := r.Weighted([]int{34, 12, 14, 12, 20, 8}); {
		case k == 5 && i > 0:
			j := r.Intn(i)
			lk.Repeat = &j
			lk.Why = "repeat"
			if r.Chance(0.5) {
				// the very same question again: same convention, base year and entry point, no clock change
				prev := s.Lookups[j]
				lk.Sect, lk.Base, lk.API, lk.Clock, lk.Fault = prev.Sect, prev.Base, prev.API, nil, ""
				lk.Why = "exact_repeat"
			}
		case k == 0: // next to a Jie instant
			off := 0
			switch r.Weighted([]int{40, 30, 20, 10}) {
			case 0:
				off = r.Range(1, 120)
			case 1:
				off = r.Range(121, 3600)
			case 2:
				off = r.Range(3601, 7300)
			default:
				off = r.Pick([]int{0, 1, 59, 60, 61})
			}
			if r.Chance(0.6) {
				off = -off
			}
			lk.Jie = &spec.JieRef{Year: pickYear(), Idx: r.Intn(12), OffS: off}
			lk.Why = "jie"
		case k == 1: // Lichun day
			lk.Jie = &spec.JieRef{Year: pickYear(), Idx: 1, OffS: r.Range(-20*3600, 20*3600)}
			lk.Why = "lichun"
		case k == 2: // rat hour either side of midnight
			y := pickYear()
			h := r.Pick([]int{23, 0})
			lk.Moment = [6]int{y, r.Range(1, 12), r.Range(1, 28), h, r.Intn(60), r.Intn(60)}
			lk.Why = "rat"
		case k == 3: // January of the base year / December of the current year
			if r.Chance(0.5) {
				lk.Moment = [6]int{lo, 1, r.Range(1, 31), r.Intn(24), r.Intn(60), r.Intn(60)}
				lk.Why = "january_of_base"
			} else {
				lk.Moment = [6]int{hi, 12, r.Range(1, 31), r.Intn(24), r.Intn(60), r.Intn(60)}
				lk.Why = "december_of_current"
			}
		default:
			y := pickYear()
			d := r.Range(1, 28)
			m := r.Range(1, 12)
			if y == 1582 && m == 10 {
				d = r.Range(15, 28)
			}
			lk.Moment = [6]int{y, m, d, r.Intn(24), r.Intn(60), r.Intn(60)}
			lk.Why = "any"
		}
		s.Lookups = append(s.Lookups, lk)
	}
	if r.Chance(0.12) && !long {
		c10Concurrent(s, r, curYear())
	}
	return s
}

// c10Concurrent turns the run into one with several callers under the simulator's scheduler: their lookups overlap
// in time, and one caller's clock or zone fault lands in the middle of another caller's lookup.
func c10Concurrent(s *spec.Spec, r *Rng, lastYear int) {
	nTasks := r.Range(2, 3)
	t0, _ := time.Parse(time.RFC3339Nano, s.Clock.Now)
	y0 := t0.Add(time.Duration(s.Clock.ZoneS) * time.Second).Year()
	if s.Clock.Zone != "" {
		if loc, err := time.LoadLocation(s.Clock.Zone); err == nil {
			y0 = t0.In(loc).Year()
		}
	}
	if r.Chance(0.55) && y0 >= 3 && y0 < 9980 {
		// the same question from every caller while the year turns: the first caller starts in year Y, another caller
		// moves the clock into Y+1 and then asks for a moment of Y+1 - its answer must reach to the end of Y+1
		// whatever the first caller is doing at that time
		y1 := y0 + 1
		lk := spec.Lookup{Moment: [6]int{y1, r.Range(1, 12), r.Range(1, 28), r.Intn(24), r.Intn(60), r.Intn(60)}, Sect: r.Range(1, 2), API: 0, Why: "year_turns_between_callers"}
		lk.Base = r.Pick([]int{1900, 1, 1582, y1 - 59, y0, 1984})
		if lk.Base > y0 {
			lk.Base = y0
		}
		if lk.Base < 1 {
			lk.Base = 1
		}
		if lk.Base == 1900 && r.Chance(0.4) {
			lk.API = r.Range(1, 2)
			if lk.API == 2 {
				lk.Sect = 2
			}
		}
		s.Lookups = nil
		jumper := r.Range(1, nTasks-1)
		for t := 0; t < nTasks; t++ {
			l := lk
			l.Task = t
			if t == jumper {
				// mid-year, so that every zone agrees about the year
				nt := time.Date(y1, time.Month(r.Range(2, 11)), r.Range(1, 28), r.Intn(24), r.Intn(60), r.Intn(60), 0, time.UTC)
				c := s.Clock
				c.Now = nt.Format(time.RFC3339Nano)
				l.Clock, l.Fault = &c, "clock_jump"
			}
			s.Lookups = append(s.Lookups, l)
			if t != jumper && r.Chance(0.4) {
				// and once more after the others
				l2 := lk
				l2.Task = t
				s.Lookups = append(s.Lookups, l2)
			}
		}
		s.Config.Faults.ClockJump = true
	} else {
		if len(s.Lookups) == 1 {
			s.Lookups = append(s.Lookups, s.Lookups[0])
			s.Lookups[1].Clock, s.Lookups[1].Fault = nil, ""
		}
		for i := range s.Lookups {
			s.Lookups[i].Task = r.Intn(nTasks)
		}
		s.Lookups[0].Task, s.Lookups[1].Task = 0, 1
	}
	c := &s.Config
	switch r.Weighted([]int{10, 45, 45}) {
	case 0:
		c.Policy = "rr"
	case 1:
		c.Policy = "random"
		c.SwitchP = []float64{0.0005, 0.005, 0.02, 0.1}[r.Intn(4)]
	default:
		c.Policy = "pct"
		c.PCTDepth = r.Range(1, 3)
		span := 64
		for i, n := 0, r.Intn(14); i < n; i++ {
			span *= 2
		}
		c.PCTSpan = span
	}
	s.Decisions = nil // decided by the scheduler's PRNG; a replay file carries the recorded decisions
	_ = lastYear
}
