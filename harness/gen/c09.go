package gen

import (
	"fmt"
	"time"

	"verif/harness/ops"
	"verif/harness/spec"
)

var knownLeap = [][2]int{{2020, 4}, {2023, 2}, {2025, 6}, {2017, 6}, {2033, 11}, {1984, 10}, {2012, 4}, {2014, 9}, {2001, 4}, {2004, 2}, {2006, 7}, {2009, 5}, {1900, 8}, {1903, 5}}

var specialYears = []int{1, 2, 3, 9996, 9997, 9998, 1582, 1583, 1581, 2033, 2034, 1900, 1899, 2100, 2101, 1645, 1984, 2262, 4, 60, 1000, 5000}

var knownBaZi = [][4]string{
	{"庚子", "戊子", "己卯", "庚午"}, {"庚子", "癸未", "乙丑", "丁亥"}, {"甲辰", "丙寅", "己亥", "戊辰"},
	{"己卯", "辛未", "甲戌", "壬申"}, {"癸卯", "甲寅", "癸丑", "甲子"}, {"甲辰", "丙寅", "庚戌", "丙子"},
	{"丁丑", "癸卯", "癸丑", "辛酉"}, {"壬寅", "庚戌", "己未", "乙亥"}, {"辛丑", "丁酉", "丙寅", "戊戌"},
}

var ganNames = []string{"甲", "乙", "丙", "丁", "戊", "己", "庚", "辛", "壬", "癸"}
var zhiNames = []string{"子", "丑", "寅", "卯", "辰", "巳", "午", "未", "申", "酉", "戌", "亥"}

func jiaZi(i int) string { return ganNames[i%10] + zhiNames[i%12] }

type c09gen struct {
	r      *Rng
	hot    []int
	inv    bool
	univ   []ops.Op
	focus  string  // swarm: family of operations this run concentrates on ("" = none)
	dictP  float64 // probability that a year comes from DictYears
	wide   bool    // wide history: every operation draws a fresh year from the whole range
	lastSx float64
	jzBase int
	exact  bool   // pair contention: the hot years are used exactly (no neighbours, no related keys)
	hotK   string // util focus: the kind of helper this run concentrates on
	hmH    int    // util focus: the time-of-day string this run concentrates on (hour+1, minute)
	hmM    int
}

var focusKinds = map[string][]string{
	"lmonth":  {"lmonth", "lmonth", "lmonth_next"},
	"lyear":   {"lyear", "lyear", "lyear_next"},
	"lunar":   {"lunar", "lunar", "ltime", "lunar_next", "tao", "foto"},
	"solar":   {"solar2lunar", "solar2lunar", "eightchar", "solar", "jd2solar"},
	"holiday": {"holiday", "holidays_ym", "holidays_year", "holidays_target", "solar_next", "salary"},
	"nav":     {"week", "smonth", "season", "halfyear", "syear", "week0", "smonth0", "season0", "halfyear0", "syear0", "week0", "smonth0"},
	"jd":      {"jd2solar", "jd2solar", "jd2solar", "solar", "solar_next"},
	"util":    {"su_days", "su_days", "su_between", "solar_rel", "lu_day", "lu_day", "lu_day", "lu_xun", "sx", "sx", "sx", "sx", "foto_xiu"},
	"fortune": {"eightchar", "yun", "bazi"},
}

func (g *c09gen) year() int {
	r := g.r
	if len(DictBounds) > 0 && r.Chance(0.10) {
		// constants the library COMPARES with (as years, or Julian day numbers turned into years), and their neighbours
		return clampYear(DictBounds[r.Intn(len(DictBounds))] + r.Pick([]int{-1, 0, 0, 1}))
	}
	if len(DictYears) > 0 && r.Chance(g.dictP) {
		return DictYears[r.Intn(len(DictYears))]
	}
	switch r.Weighted([]int{55, 15, 10, 12, 8}) {
	case 0:
		return r.Range(1900, 2100)
	case 1:
		return r.Range(1, 9998)
	case 2:
		return r.Range(1500, 1700)
	case 3:
		return r.Pick(specialYears)
	default:
		return knownLeap[r.Intn(len(knownLeap))][0]
	}
}

func clampYear(y int) int {
	if y < 1 {
		return 1
	}
	if y > 9998 {
		return 9998
	}
	return y
}

// outYear: a civil year outside 1..9999 (the pure date helpers and Solar itself accept them).
func (g *c09gen) outYear() int {
	return g.r.Pick([]int{0, -1, -7, -400, -4712, -4713, 10000, 10001, 10400, 12000, 20000})
}

func (g *c09gen) outP() float64 {
	if g.focus == "util" {
		return 0.15
	}
	return 0.05
}

// relatedDeltas: distances between keys that a too-coarse cache key, a striped lock or a sharded table folds together
var relatedDeltas = []int{12, 19, 60, 100, 400, 1000, 1024, 16, 64, 128, 256}

func (g *c09gen) hotYear() int {
	if g.exact {
		return clampYear(g.hot[g.r.Intn(len(g.hot))])
	}
	y := g.hot[g.r.Intn(len(g.hot))] + g.r.Pick([]int{-1, 0, 0, 0, 0, 1})
	if g.r.Chance(0.12) {
		// related keys: the periods a too-coarse cache key is likely to fold together
		d := g.r.Pick(relatedDeltas)
		if g.r.Chance(0.5) {
			d = -d
		}
		y += d
	}
	return clampYear(y)
}

func (g *c09gen) anyYear() int {
	if g.exact && g.r.Chance(0.9) {
		return g.hotYear()
	}
	if g.wide {
		if g.r.Chance(0.35) {
			return g.r.Range(1, 9998)
		}
		return clampYear(g.year())
	}
	if g.r.Chance(0.75) {
		return g.hotYear()
	}
	return clampYear(g.year())
}

func (g *c09gen) hms() (int, int, int) {
	r := g.r
	switch r.Weighted([]int{40, 20, 40}) {
	case 0:
		return 0, 0, 0
	case 1:
		return 23, r.Intn(60), r.Intn(60)
	default:
		return r.Intn(24), r.Intn(60), r.Intn(60)
	}
}

func (g *c09gen) solarYmd(y int) (int, int, int) {
	r := g.r
	m := r.Range(1, 12)
	switch r.Weighted([]int{35, 15, 50}) {
	case 0:
		m = r.Range(1, 2)
	case 1:
		m = 12
	}
	d := r.Range(1, 28)
	if y == 1582 && m == 10 {
		d = r.Range(15, 28)
	}
	return y, m, d
}

func (g *c09gen) solarArgs() []int {
	y, m, d := g.solarYmd(g.anyYear())
	h, mi, s := g.hms()
	return []int{y, m, d, h, mi, s}
}

func (g *c09gen) lunarArgs() []int {
	r := g.r
	y := g.anyYear()
	m := r.Range(1, 12)
	if r.Chance(0.3) {
		m = r.Pick([]int{1, 11, 12, 12})
	}
	d := r.Range(1, 29)
	if r.Chance(0.15) {
		l := knownLeap[r.Intn(len(knownLeap))]
		y, m = l[0], -l[1]
	}
	if y > 9997 {
		y = 9997
	}
	h, mi, s := g.hms()
	return []int{y, m, d, h, mi, s}
}

// term puts some of the moment-taking calls exactly on (or a second beside) a solar-term instant of their year.
func (g *c09gen) term(op ops.Op) ops.Op {
	switch op.K {
	case "solar", "solar2lunar", "eightchar", "yun", "yunobj", "dayun", "solar_next":
	default:
		return op
	}
	p := 0.07
	if g.focus == "fortune" || g.focus == "solar" {
		p = 0.22
	}
	return g.termP(op, p)
}

func (g *c09gen) termP(op ops.Op, p float64) ops.Op {
	switch op.K {
	case "solar", "solar2lunar", "eightchar", "yun", "yunobj", "dayun", "solar_next":
	default:
		return op
	}
	if len(op.A) < 6 || !g.r.Chance(p) {
		return op
	}
	y := op.A[0]
	if y < 1600 || y > 9000 {
		y = g.r.Range(1900, 2100)
	}
	op.J = []int{y, g.r.Intn(24), g.r.Pick([]int{0, 0, 0, 0, 1, -1, 2, -2, 60, -60, 3600, -3600})}
	return op
}

func (g *c09gen) baseOp() ops.Op {
	return g.term(g.baseOp0())
}

func (g *c09gen) baseOp0() ops.Op {
	r := g.r
	kinds := []string{"solar2lunar", "lunar", "lunar_next", "lyear", "lyear_next", "lmonth_next", "ltime", "tao", "foto", "eightchar", "yun",
		"bazi", "holiday", "holidays_ym", "holidays_year", "holidays_target", "solar_next", "salary", "week", "smonth", "season", "halfyear", "syear", "jd2solar", "solar", "lmonth",
		"week0", "smonth0", "season0", "halfyear0", "syear0",
		"su_days", "su_between", "solar_rel", "lu_day", "lu_xun", "sx", "foto_xiu"}
	w := []int{22, 16, 6, 9, 3, 8, 3, 3, 3, 5, 3,
		2, 2, 2, 2, 2, 4, 2, 2, 1, 1, 1, 1, 3, 3, 3,
		2, 1, 1, 1, 1,
		2, 1, 2, 1, 1, 1, 1}
	k := kinds[r.Weighted(w)]
	if fk, ok := focusKinds[g.focus]; ok && r.Chance(0.65) {
		k = fk[r.Intn(len(fk))]
		if g.focus == "util" {
			// one helper gets half of the calls of the run, so that its neighbouring and colliding arguments meet
			if g.hotK == "" {
				g.hotK = r.PickS([]string{"su_days", "su_between", "solar_rel", "lu_day", "lu_xun", "lu_xun", "sx", "foto_xiu"})
			}
			if r.Chance(0.5) {
				k = g.hotK
			}
		}
	}
	if g.wide && r.Chance(0.7) {
		// wide histories are dense sequences of calls that each build exactly one year table
		switch g.focus {
		case "lyear":
			k = "lyear"
		case "lmonth":
			k = "lmonth"
		default:
			k = r.PickS([]string{"lunar", "lunar", "ltime", "lyear"})
		}
	}
	switch k {
	case "solar2lunar", "solar":
		return ops.Op{K: k, A: g.solarArgs()}
	case "lunar", "ltime":
		return ops.Op{K: k, A: g.lunarArgs()}
	case "lunar_next":
		return ops.Op{K: k, A: append(g.lunarArgs(), r.Pick([]int{-400, -60, -31, -1, 0, 1, 29, 30, 31, 59, 355, 384, 400}))}
	case "lyear":
		return ops.Op{K: k, A: []int{g.anyYear()}}
	case "lyear_next":
		y := g.anyYear()
		n := r.Range(-3, 3)
		if y+n < 1 || y+n > 9998 {
			n = 0
		}
		return ops.Op{K: k, A: []int{y, n}}
	case "lmonth", "lmonth_next":
		y := g.anyYear()
		if y > 9990 {
			y = 9990
		}
		if y < 5 {
			y = 5
		}
		m := r.Range(1, 12)
		if r.Chance(0.1) {
			l := knownLeap[r.Intn(len(knownLeap))]
			y, m = l[0], -l[1]
		}
		if g.focus == "lmonth" && k == "lmonth" && r.Chance(0.5) {
			// every (year, month) combination near the hot years, leap-month numbers included
			m = r.Range(-12, 12)
			if m == 0 {
				m = 12
			}
		}
		if k == "lmonth" {
			return ops.Op{K: k, A: []int{y, m}}
		}
		return ops.Op{K: k, A: []int{y, m, r.Pick([]int{-40, -14, -13, -12, -2, -1, 0, 1, 2, 11, 12, 13, 14, 25, 40})}}
	case "tao":
		a := g.lunarArgs()
		a[0] += 2697
		return ops.Op{K: k, A: a}
	case "foto":
		a := g.lunarArgs()
		a[0] += 543
		return ops.Op{K: k, A: a}
	case "eightchar":
		return ops.Op{K: k, A: append(g.solarArgs(), r.Range(1, 2))}
	case "yun":
		a := g.solarArgs()
		if a[0] > 9800 {
			a[0] = 9800
		}
		return ops.Op{K: k, A: append(a, r.Range(0, 1), r.Range(1, 2), r.Intn(9), r.Intn(10))}
	case "bazi":
		b := knownBaZi[r.Intn(len(knownBaZi))]
		return ops.Op{K: k, S: []string{b[0], b[1], b[2], b[3]}, A: []int{r.Range(1, 2), r.Pick([]int{1900, 1900, 1800, 1984, 1600, 2000})}}
	case "holiday":
		return ops.Op{K: k, S: []string{fmt.Sprintf("%04d-%02d-%02d", r.Range(2001, 2026), r.Pick([]int{1, 2, 4, 5, 6, 9, 10}), r.Range(1, 28))}}
	case "holidays_ym":
		return ops.Op{K: k, A: []int{r.Range(2001, 2026), r.Pick([]int{1, 2, 4, 5, 6, 9, 10, 12})}}
	case "holidays_year":
		return ops.Op{K: k, A: []int{r.Range(2000, 2027)}}
	case "holidays_target":
		return ops.Op{K: k, S: []string{fmt.Sprintf("%04d-%s", r.Range(2002, 2026), r.PickS([]string{"01-01", "05-01", "10-01"}))}}
	case "solar_next":
		y := r.Range(2001, 2026)
		return ops.Op{K: k, A: []int{y, r.Range(1, 12), r.Range(1, 28), 0, 0, 0, r.Range(-60, 60), r.Intn(2)}}
	case "salary":
		return ops.Op{K: k, A: []int{r.Range(2001, 2026), r.Pick([]int{1, 2, 4, 5, 6, 9, 10}), r.Range(1, 28)}}
	case "week":
		y, m, d := g.solarYmd(g.anyYear())
		return ops.Op{K: k, A: []int{y, m, d, r.Intn(7), r.Range(-5, 5), r.Intn(2)}}
	case "smonth", "season", "halfyear":
		return ops.Op{K: k, A: []int{g.anyYear(), r.Range(1, 12), r.Range(-14, 14)}}
	case "su_days":
		y, m, d := g.solarYmd(g.anyYear())
		h, mi, sec := g.hms()
		return ops.Op{K: k, A: []int{y, m, d, r.Intn(7), h, mi, sec}}
	case "su_between":
		y1, m1, d1 := g.solarYmd(g.anyYear())
		y2, m2, d2 := g.solarYmd(g.anyYear())
		if r.Chance(g.outP()) {
			y2 = g.outYear()
		}
		return ops.Op{K: k, A: []int{y1, m1, d1, y2, m2, d2}}
	case "solar_rel":
		a := g.solarArgs()
		b := g.solarArgs()
		if r.Chance(0.3) {
			b[0], b[1] = a[0], a[1]
		}
		if r.Chance(g.outP()) {
			// the civil calendar has no year limits: years before 1 and after 9999 are ordinary arguments here
			b[0] = g.outYear()
		}
		return ops.Op{K: k, A: append(a, b...)}
	case "lu_day":
		if g.focus == "util" {
			// narrow domain: a handful of pillars per run (around a per-run base, plus the ends of the cycle) and
			// now and then an unrecognised one, so that neighbouring and colliding keys meet within one run
			if g.jzBase == 0 {
				g.jzBase = 1 + r.Intn(59)
			}
			pick := func() string {
				switch r.Weighted([]int{50, 15, 15, 20}) {
				case 0:
					return jiaZi((g.jzBase + r.Intn(3)) % 60)
				case 1:
					return jiaZi(59)
				case 2:
					return jiaZi(0)
				default:
					return r.PickS([]string{"", "?", "甲", "癸亥 ", "子甲", "xx"})
				}
			}
			day := jiaZi((g.jzBase + r.Intn(3)) % 60)
			return ops.Op{K: k, A: []int{r.Range(1, 12)}, S: []string{pick(), day, jiaZi((g.jzBase + r.Intn(3)) % 60)}}
		}
		return ops.Op{K: k, A: []int{r.Range(1, 12)}, S: []string{jiaZi(r.Intn(60)), jiaZi(r.Intn(60)), jiaZi(r.Intn(60))}}
	case "lu_xun":
		hm := fmt.Sprintf("%02d:%02d", r.Intn(24), r.Intn(60))
		malformed := []string{"", "24:00", "25:99", "3:15", "03:15 ", " 3:15", "03-15", "0315", "+3:15", "03:60", "-1:30", "23:59:59", "ab:cd", "１２:００"}
		if g.focus == "util" {
			// narrow domain: one time of day per run, its neighbours, and other spellings of the same minute count
			// ("02:75" for 03:15, "04:-45"), which a memo keyed by arithmetic on the digits folds together
			if g.hmH == 0 {
				g.hmH, g.hmM = 1+r.Intn(24), r.Intn(60)
			}
			h, m := g.hmH-1, g.hmM
			switch r.Weighted([]int{30, 12, 22, 6, 10, 20}) {
			case 0:
				hm = fmt.Sprintf("%02d:%02d", h, m)
			case 1:
				m2 := m + r.Pick([]int{-1, 1})
				if m2 >= 0 && m2 < 60 {
					hm = fmt.Sprintf("%02d:%02d", h, m2)
				}
			case 2:
				if h >= 1 && m+60 < 100 {
					hm = fmt.Sprintf("%02d:%02d", h-1, m+60)
				}
			case 3:
				hm = fmt.Sprintf("%02d:%d", h+1, m-60)
			case 4:
				hm = r.PickS(malformed)
			}
		} else if r.Chance(0.1) {
			hm = r.PickS(malformed)
		}
		return ops.Op{K: k, S: []string{jiaZi(r.Intn(60)), hm}}
	case "sx":
		y := g.anyYear()
		jd := float64(y-2000)*365.2422 + float64(r.Intn(365)) + float64(r.Intn(1000))/1000
		if g.lastSx != 0 && r.Chance(0.7) {
			// a neighbour of the previous argument: same lunation / term window, another position in it
			jd = g.lastSx + []float64{0.01, -0.01, 0.3, -0.3, 1.9, -1.9, 7, -7, 14.5, -14.5, 29}[r.Intn(11)]
		}
		g.lastSx = jd
		return ops.Op{K: k, F: []string{fmt.Sprintf("%.3f", jd)}}
	case "foto_xiu":
		return ops.Op{K: k, A: []int{r.Range(1, 12), r.Range(1, 30)}}
	case "week0":
		y, m, d := g.solarYmd(g.anyYear())
		return ops.Op{K: k, A: []int{y, m, d, r.Intn(7)}}
	case "smonth0", "season0", "halfyear0":
		return ops.Op{K: k, A: []int{g.anyYear(), r.Range(1, 12)}}
	case "syear0":
		return ops.Op{K: k, A: []int{g.anyYear()}}
	case "syear":
		return ops.Op{K: k, A: []int{g.anyYear(), r.Range(-3, 3)}}
	case "jd2solar":
		// a Julian day inside a hot year
		y := g.anyYear()
		day := 1721425 + int(float64(y-1)*365.2425) + r.Intn(365)
		if g.focus == "jd" {
			// few distinct day numbers, so that several conversions fall on the same day
			day = 1721425 + int(float64(g.hotYear()-1)*365.2425) + 100 + r.Intn(3)
		}
		// fraction of the day counted from noon; civil midnight is at .5 - boundary values around it and around noon
		frac := float64(r.Intn(86400)) / 86400
		switch r.Weighted([]int{50, 10, 10, 10, 10, 10}) {
		case 1:
			frac = 0.5 - 3e-6 // within half a second before civil midnight: seconds round up to 60
		case 2:
			frac = 0.5 - 8e-6
		case 3:
			frac = 0.5
		case 4:
			frac = 0.5 + 2e-6
		case 5:
			frac = 0 // exactly noon
		}
		return ops.Op{K: k, F: []string{fmt.Sprintf("%d%s", day, fmt.Sprintf("%.7f", frac)[1:])}}
	}
	return ops.Op{K: "lyear", A: []int{g.anyYear()}}
}

func (g *c09gen) invalidOp() ops.Op {
	r := g.r
	y := g.hotYear()
	big := 1 << 40
	cands := []ops.Op{
		{K: "solar", A: []int{y, 2, 30, 0, 0, 0}},
		{K: "solar", A: []int{1582, 10, r.Range(5, 14), 0, 0, 0}},
		{K: "solar2lunar", A: []int{y, 13, 1, 0, 0, 0}},
		{K: "solar2lunar", A: []int{y, 5, 6, 24, 0, 0}},
		{K: "solar2lunar", A: []int{big, 5, 6, 1, 0, 0}},
		{K: "solar2lunar", A: []int{-big, 1, 1, 0, 0, 0}},
		{K: "solar", A: []int{big, 5, 6, 1, 0, 0}, D: 1},
		{K: "lunar", A: []int{y, 13, 1, 0, 0, 0}},
		{K: "lunar", A: []int{y, -r.Range(1, 12), 1, 0, 0, 0}},
		{K: "lunar", A: []int{y, r.Range(1, 12), 31, 0, 0, 0}},
		{K: "lunar", A: []int{y, r.Range(1, 12), 0, 0, 0, 0}},
		{K: "lunar", A: []int{y, r.Range(1, 12), 1, 25, 0, 0}},
		{K: "lunar", A: []int{big, 5, 1, 0, 0, 0}},
		{K: "lyear", A: []int{big}},
		{K: "lyear", A: []int{-big}},
		{K: "lyear", A: []int{1 << 31}},
		{K: "lyear_next", A: []int{y, big}},
		{K: "lmonth_next", A: []int{y, 13, 1}},
		{K: "ltime", A: []int{y, 13, 1, 0, 0, 0}},
		{K: "tao", A: []int{y + 2697, 13, 1, 0, 0, 0}},
		{K: "foto", A: []int{y + 543, 13, 1, 0, 0, 0}},
		{K: "eightchar", A: []int{big, 5, 6, 1, 0, 0, 1}},
		{K: "jd2solar", F: []string{r.PickS([]string{"NaN", "+Inf", "-Inf", "1e300", "-1e9"})}},
		{K: "bazi", S: []string{"", "", "", ""}, A: []int{2, 1900}},
		{K: "bazi", S: []string{"甲", "乙", "丙", "丁"}, A: []int{2, 1900}},
		{K: "holiday", S: []string{""}},
		{K: "holiday", S: []string{"20"}},
		{K: "week", A: []int{y, 13, 5, 1, 3, 0}},
		{K: "week0", A: []int{y, 13, 1, 0}},
		{K: "su_days", A: []int{y, 13, 1, 0, 0, 0, 0}},
		{K: "su_between", A: []int{y, 2, 30, y, 14, 1}},
		{K: "solar_rel", A: []int{y, 2, 30, 0, 0, 0, y, 1, 1, 0, 0, 0}},
		{K: "lu_day", A: []int{13}, S: []string{"", "甲", "xx"}},
		{K: "lu_xun", S: []string{"", "25:99"}},
		{K: "foto_xiu", A: []int{13, 31}},
		{K: "week0", A: []int{y, 0, 1, 1}},
		{K: "week0", A: []int{y, 2, 30, 1}},
		{K: "smonth0", A: []int{y, 13}},
		{K: "smonth0", A: []int{y, 0}},
		{K: "season0", A: []int{y, 13}},
		{K: "halfyear0", A: []int{y, 14}},
	}
	return cands[r.Intn(len(cands))]
}

func (g *c09gen) add(op ops.Op) int {
	g.univ = append(g.univ, op)
	return len(g.univ) - 1
}

// wrap chooses how heavily the result of op is digested.
func (g *c09gen) wrap(op ops.Op) ops.Op {
	r := g.r
	if g.wide {
		if r.Chance(0.45) {
			// minimal digest (String() only): the call itself is the only library work, so the NEXT call meets
			// exactly the state this one left behind
			op.D = -1
			return op
		}
		if op.K == "lyear" || op.K == "lmonth" || op.K == "lmonth_next" || op.K == "lyear_next" {
			return op // full digest of a year / month object is cheap and shows the whole table
		}
		inner := op
		return ops.Op{K: "sub", Sub: &inner, Acc: r.U64() >> 1, N: r.Range(6, 16)}
	}
	switch r.Weighted([]int{5, 30, 65}) {
	case 0:
		if op.K != "yun" {
			op.D = 2
		}
		return op
	case 1:
		return op
	default:
		inner := op
		return ops.Op{K: "sub", Sub: &inner, Acc: r.U64() >> 1, N: r.Range(6, 48)}
	}
}

// DictYears are integer constants between 1 and 9999 found in the library's own tables (leap-month tables and the
// like): the years at which the code itself behaves specially. The driver extracts them from /repo's working tree.
// NamedZones: process-local zones with rules the fixed offsets do not have - clock changes on Sundays (New York, London),
// on any weekday (Tehran until 2022), at midnight (Sao Paulo, Cairo, Havana), by 30 minutes (Lord Howe), a calendar day
// that never happened (Apia, 2011-12-30), odd offsets (St Johns, Kathmandu, Kolkata), +14 (Kiritimati), no rules (Shanghai).
var NamedZones = []string{"America/New_York", "Europe/London", "Asia/Tehran", "Asia/Tehran", "Australia/Lord_Howe", "America/Sao_Paulo", "Africa/Cairo",
	"Pacific/Apia", "America/Havana", "Asia/Shanghai", "Asia/Kolkata", "Pacific/Kiritimati", "America/St_Johns", "Asia/Kathmandu"}

var DictYears []int

// DictBounds are the integer constants that the library compares a value with (comparison operands and case labels):
// those between 5 and 9999 as they are, those in the range of Julian day numbers converted to the civil year they fall in.
var DictBounds []int

// Tier is set by the driver; the thorough tier also draws larger runs (more tasks, longer scripts).
var Tier = "quick"

// C09 generates run number `run` of the C09 check.
// FloodP is the share of C09 runs that carry a volume fault.
var FloodP = 0.04

// c09flood chooses the template, length and stride of a flood. Lengths are log-uniform from just above the smallest
// plausible capacity (128) to what the call's cost allows inside one run.
func c09flood(r *Rng, g *c09gen) *spec.Flood {
	fl := &spec.Flood{Stride: 1}
	if r.Chance(0.25) {
		fl.Stride = r.Pick([]int{-1, 2, 7, 60, 128})
	}
	y := 1000 + r.Intn(1500)
	if r.Chance(0.5) {
		y = 1900 + r.Intn(150)
	}
	m, d := r.Range(1, 12), r.Range(1, 28)
	h, mi, sec := r.Intn(24), r.Intn(60), r.Intn(60)
	switch r.Weighted([]int{20, 22, 16, 14, 12, 10, 6}) {
	case 0: // year tables
		fl.Unit = "year"
		fl.Op = ops.Op{K: "sub", Sub: &ops.Op{K: "lyear", A: []int{y}}, Acc: r.U64() >> 1, N: 3}
		fl.Count = logUniform(r, 130, 1500)
	case 1: // one day of each of many years, every accessor of the Lunar (whatever is kept per year behind any of them)
		fl.Unit = "year"
		fl.Op = ops.Op{K: "sub", Sub: &ops.Op{K: "solar2lunar", A: []int{y, m, d, h, mi, sec}}, Acc: r.U64() >> 1, N: 0}
		fl.Count = logUniform(r, 130, 320)
	case 2: // holiday lookups by day
		fl.Unit = "day"
		fl.Op = ops.Op{K: "holiday_ymd", A: []int{1990 + r.Intn(30), m, d}}
		fl.Count = logUniform(r, 300, 40000)
		if fl.Stride < 0 || fl.Stride > 7 {
			fl.Stride = 1
		}
	case 3: // consecutive days through the conversion, a few accessors each
		fl.Unit = "day"
		if y < 1600 {
			y += 600
		}
		fl.Op = ops.Op{K: "sub", Sub: &ops.Op{K: "solar2lunar", A: []int{y, m, d, h, mi, sec}}, Acc: r.U64() >> 1, N: r.Range(3, 8)}
		fl.Count = logUniform(r, 300, 5000)
		if fl.Stride < 0 || fl.Stride > 7 {
			fl.Stride = 1
		}
	case 4: // civil dates
		fl.Unit = "day"
		if y < 1600 {
			y += 600
		}
		fl.Op = ops.Op{K: "sub", Sub: &ops.Op{K: "solar", A: []int{y, m, d, h, mi, sec}}, Acc: r.U64() >> 1, N: r.Range(3, 8)}
		fl.Count = logUniform(r, 300, 20000)
		if fl.Stride < 0 || fl.Stride > 7 {
			fl.Stride = 1
		}
	case 5: // lunar months of many years
		fl.Unit = "year"
		fl.Op = ops.Op{K: "sub", Sub: &ops.Op{K: "lmonth", A: []int{y, m}}, Acc: r.U64() >> 1, N: 4}
		fl.Count = logUniform(r, 130, 1500)
	default: // eight characters of one moment in many years
		fl.Unit = "year"
		fl.Op = ops.Op{K: "sub", Sub: &ops.Op{K: "eightchar", A: []int{y, m, d, h, mi, sec, 2}}, Acc: r.U64() >> 1, N: r.Range(10, 40)}
		fl.Count = logUniform(r, 130, 600)
	}
	return fl
}

func C09(seed uint64, run int) *spec.Spec {
	r := NewRng(seed, 9, run)
	g := &c09gen{r: r, dictP: 0.08}
	s := &spec.Spec{V: 1, Property: "C09", Seed: seed, Run: run}
	kind := r.Weighted([]int{25, 30, 45}) // seq history | multi-task | multi-task with faults
	if r.Chance(0.13) {
		// wide history: one caller, many cheap year-table / month / date constructions over the whole year range,
		// a third of the years taken from the library's own tables
		kind = 0
		g.wide = true
		g.dictP = 0.6
	}
	nHot := r.Range(1, 3)
	for i := 0; i < nHot; i++ {
		g.hot = append(g.hot, clampYear(g.year()))
	}
	if g.wide {
		g.focus = r.PickS([]string{"lyear", "lyear", "lmonth", "lunar"})
	} else if r.Chance(0.5) {
		g.focus = r.PickS([]string{"lmonth", "lyear", "lunar", "solar", "holiday", "nav", "fortune", "jd", "util", "lmonth", "lyear", "lunar", "solar", "nav", "util"})
		if r.Chance(0.6) {
			g.hot = g.hot[:1]
		}
		if g.focus == "lmonth" && r.Chance(0.5) {
			g.hot[0] = knownLeap[r.Intn(len(knownLeap))][0]
		}
	}
	if kind != 0 && !g.wide && r.Chance(0.05) {
		// pair contention: several tasks build the tables of exactly two related years at the same time (what a striped
		// lock, a sharded cache or per-key wait queues have to keep apart)
		y := clampYear(g.year())
		d := r.Pick(relatedDeltas)
		if y+d > 9998 {
			d = -d
		}
		g.hot = []int{y, clampYear(y + d)}
		g.exact = true
		g.focus = r.PickS([]string{"lyear", "lyear", "lunar", "lmonth"})
	}
	f := &s.Config.Faults
	if kind == 2 {
		f.InvalidPanic = r.Chance(0.6)
		f.Stall = r.Chance(0.5)
		f.Evict = r.Chance(0.5)
		f.MapOrder = r.Chance(0.5)
		if !f.InvalidPanic && !f.Stall && !f.Evict && !f.MapOrder {
			f.InvalidPanic = true
		}
	}
	if kind == 0 {
		f.InvalidPanic = r.Chance(0.5)
	}
	g.inv = f.InvalidPanic
	// clock: fixed for the run, mid-year so that tick drift cannot cross a year
	cy := r.Range(1970, 2100)
	s.Clock = spec.Clock{Now: time.Date(cy, time.Month(r.Range(2, 11)), r.Range(1, 28), r.Intn(24), r.Intn(60), r.Intn(60), 0, time.UTC).Format(time.RFC3339Nano),
		ZoneS: r.Range(-12, 14) * 3600, TickNs: 1000000}
	if r.Chance(0.12) {
		s.Clock.Zone = r.PickS(NamedZones)
	}

	big := (Tier == "thorough" && r.Chance(0.25)) || (Tier != "thorough" && r.Chance(0.06))
	nTasks := 1
	if kind != 0 {
		nTasks = r.Range(2, 5)
		if big {
			nTasks = r.Range(4, 6)
		}
	}
	crowd := false
	if kind != 0 && !g.wide && !g.exact && r.Chance(0.035) {
		// a crowd: 9-12 callers with one to three cheap constructions each, all inside the library at once - what a
		// server does, and the only way to exhaust a fixed-size pool, a semaphore or a set of per-CPU slots
		crowd = true
		big = false
		nTasks = r.Range(9, 12)
		g.focus = r.PickS([]string{"lyear", "lyear", "lunar", "lmonth", "solar"})
	}
	sweep := ""
	if g.wide && r.Chance(0.35) {
		// sweep: consecutive days (months, years) through one kind of object, the way a calendar page is rendered
		sweep = r.PickS([]string{"tao", "foto", "lunar", "ltime", "solar2lunar", "lyear", "lmonth", "tao", "foto", "eightchar", "lyear", "lyear"})
	}
	nUniv := r.Range(6, 18)
	if g.focus != "" {
		nUniv = r.Range(10, 24)
	}
	if g.wide {
		nUniv = r.Range(30, 60)
	}
	if sweep != "" {
		y := clampYear(g.year())
		if y > 9900 {
			y = 9900
		}
		if y < 10 {
			y = 10
		}
		m, d := r.Range(1, 12), r.Range(1, 29)
		h, mi, sec := g.hms()
		y0 := y
		sweepDown := r.Chance(0.5)
		if sweep == "lyear" {
			// the chosen year (often a constant of the library) lies somewhere inside the sweep, not at its start
			k := r.Intn(nUniv)
			if sweepDown {
				y0 = clampYear(y + k)
			} else {
				y0 = clampYear(y - k)
			}
		}
		if sweep == "lmonth" && r.Chance(0.5) {
			l := knownLeap[r.Intn(len(knownLeap))]
			y, m = l[0]-1, r.Range(6, 12)
		}
		for i := 0; i < nUniv; i++ {
			var op ops.Op
			switch sweep {
			case "tao":
				op = ops.Op{K: "tao", A: []int{y + 2697, m, d, h, mi, sec}}
			case "foto":
				op = ops.Op{K: "foto", A: []int{y + 543, m, d, h, mi, sec}}
			case "lunar", "ltime":
				op = ops.Op{K: sweep, A: []int{y, m, d, h, mi, sec}}
			case "solar2lunar", "eightchar":
				sd := d
				if sd > 28 {
					sd = 28
				}
				op = ops.Op{K: sweep, A: []int{y, m, sd, h, mi, sec}}
				if sweep == "eightchar" {
					op.A = append(op.A, 2)
				}
			case "lyear":
				if sweepDown {
					op = ops.Op{K: "lyear", A: []int{clampYear(y0 - i)}}
				} else {
					op = ops.Op{K: "lyear", A: []int{clampYear(y0 + i)}}
				}
			default:
				// every month number and its leap-month twin, across year boundaries
				mm := m
				if i%2 == 1 {
					mm = -m
				}
				op = ops.Op{K: "lmonth", A: []int{y, mm}}
			}
			switch sweep {
			case "tao", "foto", "ltime", "lyear", "lmonth":
				// full digest: cheap for these objects and it includes the festival / table accessors
			default:
				inner := op
				op = ops.Op{K: "sub", Sub: &inner, Acc: r.U64() >> 1, N: r.Range(10, 30)}
			}
			g.add(op)
			// next day (lunar months have 29 or 30 days: 30 is tried and may be rejected, which is itself a recovered panic)
			switch sweep {
			case "lyear":
			case "lmonth":
				if i%2 == 1 {
					m++
				}
			default:
				d++
				lim := 29
				if sweep == "solar2lunar" || sweep == "eightchar" {
					lim = 28
				}
				if d > lim {
					d = 1
					m++
				}
			}
			if m > 12 {
				m = 1
				y++
			}
		}
	} else {
		for i := 0; i < nUniv; i++ {
			g.add(g.wrap(g.baseOp()))
		}
	}
	for t := 0; t < nTasks; t++ {
		n := r.Range(2, 7)
		if kind == 0 {
			n = r.Range(3, 12)
		}
		if g.wide {
			n = nUniv
		}
		if crowd {
			n = r.Range(1, 3)
		}
		if g.focus == "util" && kind != 0 {
			n = r.Range(6, 16) // the helpers are cheap: longer scripts, more chances for two callers to meet inside one
		}
		if big {
			n = r.Range(6, 14)
			if kind == 0 {
				n = r.Range(12, 30)
			}
		}
		var task spec.Task
		for i := 0; i < n; i++ {
			u := r.Intn(nUniv)
			if g.wide {
				u = i
			}
			task.Ops = append(task.Ops, spec.Step{U: &u})
		}
		s.Tasks = append(s.Tasks, task)
	}
	// shared objects
	// objects that are kept and read again later: shared between tasks, or (single-task histories) re-read after
	// other calls were made, which is what shows aliasing between an earlier object and later work
	if r.Chance(0.55) {
		nPub := r.Range(1, 3)
		for p := 0; p < nPub; p++ {
			var ctor ops.Op
			switch r.Weighted([]int{36, 18, 8, 10, 6, 6, 4, 3, 3, 5, 4, 2, 2, 2, 2}) {
			case 0:
				ctor = ops.Op{K: "solar2lunar", A: g.solarArgs()}
			case 1:
				ctor = ops.Op{K: "lunar", A: g.lunarArgs()}
			case 2:
				ctor = ops.Op{K: "solar", A: g.solarArgs()}
			case 3:
				ctor = ops.Op{K: "lyear", A: []int{g.anyYear()}}
			case 4:
				ctor = ops.Op{K: "lmonth", A: []int{clampYear(g.anyYear()), r.Range(1, 12)}}
			case 5:
				ctor = ops.Op{K: "eightchar", A: append(g.solarArgs(), 2)}
			case 6:
				ctor = ops.Op{K: "ltime", A: g.lunarArgs()}
			case 7:
				a := g.lunarArgs()
				a[0] += 2697
				ctor = ops.Op{K: "tao", A: a}
			case 8:
				a := g.lunarArgs()
				a[0] += 543
				ctor = ops.Op{K: "foto", A: a}
			case 9:
				a := g.solarArgs()
				if a[0] > 9800 {
					a[0] = 9800
				}
				ctor = ops.Op{K: "yunobj", A: append(a, r.Range(0, 1), r.Range(1, 2))}
			case 10:
				a := g.solarArgs()
				if a[0] > 9800 {
					a[0] = 9800
				}
				ctor = ops.Op{K: "dayun", A: append(a, r.Range(0, 1), r.Range(1, 2), r.Intn(8))}
			case 11:
				y, m, d := g.solarYmd(g.anyYear())
				ctor = ops.Op{K: "week", A: []int{y, m, d, r.Intn(7), r.Range(-2, 2), r.Intn(2)}}
			case 12:
				ctor = ops.Op{K: "smonth", A: []int{g.anyYear(), r.Range(1, 12), r.Range(-2, 2)}}
			case 13:
				ctor = ops.Op{K: "syear", A: []int{g.anyYear(), r.Range(-1, 1)}}
			default:
				y := g.anyYear()
				if y > 9990 {
					y = 9990
				}
				if y < 5 {
					y = 5
				}
				ctor = ops.Op{K: "lmonth_next", A: []int{y, r.Range(1, 12), r.Range(-2, 2)}}
			}
			ctor = g.termP(ctor, 0.25)
			cu := g.add(ctor)
			pt := r.Intn(nTasks)
			pos := r.Intn(len(s.Tasks[pt].Ops)/2 + 1)
			st := spec.Step{Pub: &spec.Pub{Slot: p, U: cu}}
			ops_ := s.Tasks[pt].Ops
			s.Tasks[pt].Ops = append(ops_[:pos:pos], append([]spec.Step{st}, ops_[pos:]...)...)
			for t := 0; t < nTasks; t++ {
				if t == pt && nTasks > 1 && r.Chance(0.5) {
					continue
				}
				k := r.Range(1, 3)
				for i := 0; i < k; i++ {
					inner := ctor
					n := r.Range(4, 40)
					if r.Chance(0.1) {
						n = 0
					}
					su := g.add(ops.Op{K: "sub", Sub: &inner, Acc: r.U64() >> 1, N: n})
					lo := 0
					if t == pt {
						for j, x := range s.Tasks[t].Ops {
							if x.Pub != nil && x.Pub.Slot == p {
								lo = j + 1
							}
						}
					} else {
						lo = len(s.Tasks[t].Ops) / 3
					}
					pos := lo + r.Intn(len(s.Tasks[t].Ops)-lo+1)
					st := spec.Step{Read: &spec.Pub{Slot: p, U: su}}
					o := s.Tasks[t].Ops
					s.Tasks[t].Ops = append(o[:pos:pos], append([]spec.Step{st}, o[pos:]...)...)
				}
			}
		}
	}
	// fault: invalid inputs between and concurrently with valid calls
	if f.InvalidPanic {
		k := r.Range(1, 3)
		for i := 0; i < k; i++ {
			u := g.add(g.invalidOp())
			t := r.Intn(nTasks)
			pos := r.Intn(len(s.Tasks[t].Ops) + 1)
			st := spec.Step{U: &u, Fault: "invalid_panic"}
			o := s.Tasks[t].Ops
			s.Tasks[t].Ops = append(o[:pos:pos], append([]spec.Step{st}, o[pos:]...)...)
			// the same rejected call from other callers at about the same point of their scripts: invalid input
			// meets invalid input (e.g. two callers inside the same failing computation)
			if nTasks > 1 && r.Chance(0.45) {
				for t2 := 0; t2 < nTasks; t2++ {
					if t2 == t || r.Chance(0.4) {
						continue
					}
					p2 := pos
					if p2 > len(s.Tasks[t2].Ops) {
						p2 = len(s.Tasks[t2].Ops)
					}
					u2 := u
					st2 := spec.Step{U: &u2, Fault: "invalid_panic"}
					o2 := s.Tasks[t2].Ops
					s.Tasks[t2].Ops = append(o2[:p2:p2], append([]spec.Step{st2}, o2[p2:]...)...)
				}
			}
		}
	}
	// fault: evictor task hammering the one-slot cache with cold years
	if f.Evict && len(s.Tasks) < 6 {
		var task spec.Task
		task.Role = "evictor"
		n := r.Range(3, 10)
		if r.Chance(0.3) {
			n = r.Range(15, 40) // a long burst of cache misses while somebody else is held up inside one computation
		}
		for i := 0; i < n; i++ {
			y := clampYear(g.year())
			inner := ops.Op{K: "lyear", A: []int{y}}
			u := g.add(ops.Op{K: "sub", Sub: &inner, Acc: r.U64() >> 1, N: 3})
			task.Ops = append(task.Ops, spec.Step{U: &u, Fault: "evict"})
		}
		s.Tasks = append(s.Tasks, task)
	}
	// fault: volume. Drawn from a stream of its own (every run without it stays what it was). One task makes hundreds
	// to tens of thousands of DISTINCT valid calls of one kind back to back - uncompared load that pushes whatever
	// bounded cache, ring, pool or table the library keeps per year or per day past its capacity (the guidance's
	// 'cache too large for the miss path to run') - while the run's ordinary operations, and a few calls taken from
	// the flood itself, are made before, after and beside it and judged by the fresh-process oracle as always.
	if r2 := NewRng(seed, 1009, run); !crowd && r2.Chance(FloodP) {
		fl := c09flood(r2, g)
		f.Flood = true
		// the run's overall step cap (a machinery guard: exceeding it is exit 2, no verdict) grows with the flood; a call
		// that spins is still caught by its own per-call budget
		s.Config.StepCap = 600_000_000 + uint64(fl.Count)*2_000_000
		if NewRng(seed, 2009, run).Chance(0.15) {
			// a HOT KEY instead of distinct ones: the very same call, count times (hit counters that age or
			// saturate, adaptive structures that reorganise after N hits on one entry)
			fl.Stride = 0
		}
		t := r2.Intn(len(s.Tasks))
		if s.Tasks[t].Role == "evictor" {
			t = 0
		}
		o := s.Tasks[t].Ops
		pos := r2.Intn(len(o) + 1)
		st := spec.Step{Flood: fl, Fault: "flood"}
		o = append(o[:pos:pos], append([]spec.Step{st}, o[pos:]...)...)
		s.Tasks[t].Ops = o
		// witnesses out of the flood itself: its first call, its last and one in between - made again after the flood
		// by the same task (has the early one been evicted and rebuilt correctly?), sometimes before it, and by the
		// other tasks while it is under way
		for _, i := range []int{0, r2.Intn(fl.Count), fl.Count - 1} {
			u := g.add(spec.FloodOp(fl, i))
			o := s.Tasks[t].Ops
			after := pos + 1 + r2.Intn(len(o)-pos)
			u1 := u
			o = append(o[:after:after], append([]spec.Step{{U: &u1}}, o[after:]...)...)
			if r2.Chance(0.4) {
				before := r2.Intn(pos + 1)
				u2 := u
				o = append(o[:before:before], append([]spec.Step{{U: &u2}}, o[before:]...)...)
				pos++
			}
			s.Tasks[t].Ops = o
			if len(s.Tasks) > 1 && r2.Chance(0.6) {
				t2 := r2.Intn(len(s.Tasks))
				if t2 != t {
					o2 := s.Tasks[t2].Ops
					p2 := r2.Intn(len(o2) + 1)
					u3 := u
					s.Tasks[t2].Ops = append(o2[:p2:p2], append([]spec.Step{{U: &u3}}, o2[p2:]...)...)
				}
			}
		}
	}
	// fault: the wall clock moves on between calls (minutes to a day; never across a year, so that the
	// clock-dependent reverse lookup keeps its fresh-process answer)
	if r.Chance(0.3) {
		f.ClockJump = true
		k := r.Range(1, 3)
		for i := 0; i < k; i++ {
			t := r.Intn(len(s.Tasks))
			pos := r.Intn(len(s.Tasks[t].Ops) + 1)
			d := int64(r.Pick([]int{61, 600, 3600, 6 * 3600, 86400}))
			st := spec.Step{Clock: &d, Fault: "clock_jump"}
			o := s.Tasks[t].Ops
			s.Tasks[t].Ops = append(o[:pos:pos], append([]spec.Step{st}, o[pos:]...)...)
		}
	}
	// policy
	c := &s.Config
	if kind == 0 {
		c.Policy = "seq"
	} else {
		switch r.Weighted([]int{8, 37, 30, 25}) {
		case 0:
			c.Policy = "rr"
		case 1:
			c.Policy = "random"
			c.SwitchP = []float64{0.005, 0.02, 0.1, 0.5}[r.Intn(4)]
		case 2:
			c.Policy = "pct"
			c.PCTDepth = r.Range(1, 3)
			span := 8
			for i, n := 0, r.Intn(14); i < n; i++ {
				span *= 2
			}
			c.PCTSpan = span
		default:
			c.Policy = "targeted"
			for cl := 0; cl < 7; cl++ {
				if r.Chance(0.4) {
					c.Targeted = append(c.Targeted, cl)
				}
			}
			if len(c.Targeted) == 0 {
				c.Targeted = []int{r.Intn(2)}
			}
		}
	}
	if crowd {
		// everybody inside at the same time: frequent switches
		c.Policy, c.PCTDepth, c.PCTSpan, c.Targeted = "random", 0, 0, nil
		c.SwitchP = []float64{0.02, 0.1, 0.3, 0.5}[r.Intn(4)]
		if r.Chance(0.25) {
			c.Policy, c.SwitchP = "rr", 0
		}
	}
	if f.Stall {
		c.StallP = []float64{0.01, 0.05, 0.2}[r.Intn(3)]
	}
	if f.MapOrder {
		c.MapSalt = r.U64() | 1
	}
	s.Universe = g.univ
	return s
}
