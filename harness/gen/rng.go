// Package gen turns (VERIF_SEED, run index) into run specifications. Every
// choice comes from one xoshiro256** stream; nothing here reads a clock,
// math/rand or a map iteration order.
package gen

type Rng struct{ s [4]uint64 }

func splitmix(x *uint64) uint64 {
	*x += 0x9e3779b97f4a7c15
	z := *x
	z = (z ^ (z >> 30)) * 0xbf58476d1ce4e5b9
	z = (z ^ (z >> 27)) * 0x94d049bb133111eb
	return z ^ (z >> 31)
}

// NewRng seeds a stream from the check seed, the property and the run index.
func NewRng(seed uint64, salt uint64, run int) *Rng {
	x := seed*0x9e3779b97f4a7c15 ^ salt<<32 ^ uint64(run)
	r := &Rng{}
	for i := range r.s {
		r.s[i] = splitmix(&x)
	}
	return r
}

func rotl(x uint64, k uint) uint64 { return (x << k) | (x >> (64 - k)) }

func (r *Rng) U64() uint64 {
	s := &r.s
	res := rotl(s[1]*5, 7) * 9
	t := s[1] << 17
	s[2] ^= s[0]
	s[3] ^= s[1]
	s[1] ^= s[2]
	s[0] ^= s[3]
	s[2] ^= t
	s[3] = rotl(s[3], 45)
	return res
}

func (r *Rng) Intn(n int) int {
	if n <= 1 {
		return 0
	}
	return int(r.U64() % uint64(n))
}

// Range returns a value in [lo, hi].
func (r *Rng) Range(lo, hi int) int { return lo + r.Intn(hi-lo+1) }

func (r *Rng) Float() float64 { return float64(r.U64()>>11) / (1 << 53) }

func (r *Rng) Chance(p float64) bool { return r.Float() < p }

func (r *Rng) Pick(xs []int) int { return xs[r.Intn(len(xs))] }

func (r *Rng) PickS(xs []string) string { return xs[r.Intn(len(xs))] }

// Weighted picks an index with probability proportional to w[i].
func (r *Rng) Weighted(w []int) int {
	t := 0
	for _, x := range w {
		t += x
	}
	k := r.Intn(t)
	for i, x := range w {
		if k < x {
			return i
		}
		k -= x
	}
	return len(w) - 1
}
