// Package ops is the operation catalogue and the reflection digest shared by
// every worker binary. It imports only the library's public packages, never
// simrt, so it links against both the instrumented copy and the plain tree.
package ops

import (
	"container/list"
	"fmt"
	"math"
	"os"
	"reflect"
	"sort"
	"strconv"
	"strings"
	"time"

	"github.com/6tail/lunar-go/FotoUtil"
	"github.com/6tail/lunar-go/HolidayUtil"
	"github.com/6tail/lunar-go/LunarUtil"
	"github.com/6tail/lunar-go/ShouXingUtil"
	"github.com/6tail/lunar-go/SolarUtil"
	"github.com/6tail/lunar-go/calendar"
)

const modPath = "github.com/6tail/lunar-go"

// Op is one public call (or short call chain) with its arguments.
type Op struct {
	K   string   `json:"k"`
	A   []int    `json:"a,omitempty"`
	S   []string `json:"s,omitempty"`
	F   []string `json:"f,omitempty"` // floats as strings so that NaN/Inf survive JSON
	D   int      `json:"d,omitempty"` // digest depth (0 = default 1)
	Sub *Op      `json:"sub,omitempty"`
	Acc uint64   `json:"acc,omitempty"` // accessor-subset seed for K=="sub"
	N   int      `json:"n,omitempty"`   // accessor-subset size
	J   []int    `json:"j,omitempty"`   // [year, term 0..23, offset in s]: A[0..5] is the instant of that solar term plus the offset
}

var termNames = []string{"冬至", "小寒", "大寒", "立春", "雨水", "惊蛰", "春分", "清明", "谷雨", "立夏", "小满", "芒种", "夏至", "小暑", "大暑", "立秋", "处暑", "白露", "秋分", "寒露", "霜降", "立冬", "小雪", "大雪"}

// atTerm resolves J: the moment arguments become the instant of a solar term (as the library's own table gives it)
// plus a few seconds - the births "exactly at a term" that a random moment never is.
func (o Op) atTerm() Op {
	if len(o.J) != 3 {
		return o
	}
	tbl := calendar.NewSolarFromYmd(o.J[0], 6, 15).GetLunar().GetJieQiTable()
	s := tbl[termNames[((o.J[1]%24)+24)%24]]
	t := time.Date(s.GetYear(), time.Month(s.GetMonth()), s.GetDay(), s.GetHour(), s.GetMinute(), s.GetSecond(), 0, time.UTC).Add(time.Duration(o.J[2]) * time.Second)
	a := []int{t.Year(), int(t.Month()), t.Day(), t.Hour(), t.Minute(), t.Second()}
	if len(o.A) > 6 {
		a = append(a, o.A[6:]...)
	}
	o.A, o.J = a, nil
	return o
}

func (o Op) String() string {
	var b strings.Builder
	b.WriteString(o.K)
	b.WriteString("(")
	sep := ""
	for _, a := range o.A {
		b.WriteString(sep + strconv.Itoa(a))
		sep = ","
	}
	for _, s := range o.S {
		b.WriteString(sep + strconv.Quote(s))
		sep = ","
	}
	for _, f := range o.F {
		b.WriteString(sep + f)
		sep = ","
	}
	if len(o.J) == 3 {
		b.WriteString(fmt.Sprintf("%s@term(%d,%d,%+ds)", sep, o.J[0], o.J[1], o.J[2]))
		sep = ","
	}
	if o.Sub != nil {
		b.WriteString(sep + o.Sub.String() + fmt.Sprintf(" acc=%d n=%d", o.Acc, o.N))
	}
	b.WriteString(")")
	if o.D > 1 {
		b.WriteString(fmt.Sprintf("/d%d", o.D))
	}
	if o.D < 0 {
		b.WriteString("/min")
	}
	return b.String()
}

func (o Op) a(i int) int {
	if i < len(o.A) {
		return o.A[i]
	}
	return 0
}

func (o Op) s(i int) string {
	if i < len(o.S) {
		return o.S[i]
	}
	return ""
}

func (o Op) f(i int) float64 {
	if i < len(o.F) {
		v, err := strconv.ParseFloat(o.F[i], 64)
		if err == nil {
			return v
		}
	}
	return math.NaN()
}

// YunResult bundles the fortune chain so the digest covers the nested lists.
type YunResult struct {
	Yun     *calendar.Yun
	DaYun   []*calendar.DaYun
	LiuNian []*calendar.LiuNian
	XiaoYun []*calendar.XiaoYun
	LiuYue  []*calendar.LiuYue
}

// Construct performs the call. It panics exactly when the library panics.
func Construct(o Op) interface{} {
	o = o.atTerm()
	switch o.K {
	case "solar":
		return calendar.NewSolar(o.a(0), o.a(1), o.a(2), o.a(3), o.a(4), o.a(5))
	case "solar2lunar":
		return calendar.NewSolar(o.a(0), o.a(1), o.a(2), o.a(3), o.a(4), o.a(5)).GetLunar()
	case "lunar":
		return calendar.NewLunar(o.a(0), o.a(1), o.a(2), o.a(3), o.a(4), o.a(5))
	case "lunar_next":
		return calendar.NewLunar(o.a(0), o.a(1), o.a(2), o.a(3), o.a(4), o.a(5)).Next(o.a(6))
	case "solar_next":
		return calendar.NewSolar(o.a(0), o.a(1), o.a(2), o.a(3), o.a(4), o.a(5)).Next(o.a(6), o.a(7) != 0)
	case "jd2solar":
		return calendar.NewSolarFromJulianDay(o.f(0))
	case "lyear":
		return calendar.NewLunarYear(o.a(0))
	case "lyear_next":
		return calendar.NewLunarYear(o.a(0)).Next(o.a(1))
	case "lmonth":
		return calendar.NewLunarMonthFromYm(o.a(0), o.a(1))
	case "lmonth_next":
		return calendar.NewLunarMonthFromYm(o.a(0), o.a(1)).Next(o.a(2))
	case "ltime":
		return calendar.NewLunarTime(o.a(0), o.a(1), o.a(2), o.a(3), o.a(4), o.a(5))
	case "tao":
		return calendar.NewTao(o.a(0), o.a(1), o.a(2), o.a(3), o.a(4), o.a(5))
	case "foto":
		return calendar.NewFoto(o.a(0), o.a(1), o.a(2), o.a(3), o.a(4), o.a(5))
	case "eightchar":
		ec := calendar.NewSolar(o.a(0), o.a(1), o.a(2), o.a(3), o.a(4), o.a(5)).GetLunar().GetEightChar()
		ec.SetSect(o.a(6))
		return ec
	case "yun":
		ec := calendar.NewSolar(o.a(0), o.a(1), o.a(2), o.a(3), o.a(4), o.a(5)).GetLunar().GetEightChar()
		y := ec.GetYunBySect(o.a(6), o.a(7))
		r := &YunResult{Yun: y, DaYun: y.GetDaYun()}
		if len(r.DaYun) > 1 {
			k := 1 + (o.a(8) % (len(r.DaYun) - 1))
			r.LiuNian = r.DaYun[k].GetLiuNian()
			r.XiaoYun = r.DaYun[k].GetXiaoYun()
			if len(r.LiuNian) > 0 {
				r.LiuYue = r.LiuNian[o.a(9)%len(r.LiuNian)].GetLiuYue()
			}
		}
		return r
	case "yunobj":
		return calendar.NewSolar(o.a(0), o.a(1), o.a(2), o.a(3), o.a(4), o.a(5)).GetLunar().GetEightChar().GetYunBySect(o.a(6), o.a(7))
	case "dayun":
		dy := calendar.NewSolar(o.a(0), o.a(1), o.a(2), o.a(3), o.a(4), o.a(5)).GetLunar().GetEightChar().GetYunBySect(o.a(6), o.a(7)).GetDaYun()
		return dy[1+o.a(8)%(len(dy)-1)]
	case "bazi":
		l := calendar.ListSolarFromBaZiBySectAndBaseYear(o.s(0), o.s(1), o.s(2), o.s(3), o.a(0), o.a(1))
		var out []string
		for e := l.Front(); e != nil; e = e.Next() {
			out = append(out, e.Value.(*calendar.Solar).ToYmdHms())
		}
		return out
	case "holiday":
		return HolidayUtil.GetHoliday(o.s(0))
	case "holiday_ymd":
		return HolidayUtil.GetHolidayByYmd(o.a(0), o.a(1), o.a(2))
	case "holidays":
		return HolidayUtil.GetHolidays(o.s(0))
	case "holidays_ym":
		return HolidayUtil.GetHolidaysByYm(o.a(0), o.a(1))
	case "holidays_year":
		return HolidayUtil.GetHolidaysByYear(o.a(0))
	case "holidays_target":
		return HolidayUtil.GetHolidaysByTarget(o.s(0))
	case "holidays_target_ymd":
		return HolidayUtil.GetHolidaysByTargetYmd(o.a(0), o.a(1), o.a(2))
	case "salary":
		return calendar.NewSolarFromYmd(o.a(0), o.a(1), o.a(2)).GetSalaryRate()
	case "week":
		return calendar.NewSolarWeekFromYmd(o.a(0), o.a(1), o.a(2), o.a(3)).Next(o.a(4), o.a(5) != 0)
	case "su_days":
		return []interface{}{SolarUtil.GetDaysInYear(o.a(0), o.a(1), o.a(2)), SolarUtil.GetDaysOfYear(o.a(0)), SolarUtil.GetDaysOfMonth(o.a(0), o.a(1)), SolarUtil.IsLeapYear(o.a(0)),
			SolarUtil.GetWeek(o.a(0), o.a(1), o.a(2)), SolarUtil.GetWeeksOfMonth(o.a(0), o.a(1), o.a(3)), SolarUtil.GetJulianDay(o.a(0), o.a(1), o.a(2), o.a(4), o.a(5), o.a(6))}
	case "su_between":
		return []interface{}{SolarUtil.GetDaysBetween(o.a(0), o.a(1), o.a(2), o.a(3), o.a(4), o.a(5)),
			SolarUtil.IsBefore(o.a(0), o.a(1), o.a(2), 0, 0, 0, o.a(3), o.a(4), o.a(5), 0, 0, 0)}
	case "solar_rel":
		a := calendar.NewSolar(o.a(0), o.a(1), o.a(2), o.a(3), o.a(4), o.a(5))
		b := calendar.NewSolar(o.a(6), o.a(7), o.a(8), o.a(9), o.a(10), o.a(11))
		return []interface{}{a.Subtract(b), b.Subtract(a), a.SubtractMinute(b), a.IsAfter(b), a.IsBefore(b), b.IsBefore(a)}
	case "lu_day":
		return []interface{}{LunarUtil.GetDayYi(o.s(0), o.s(1)), LunarUtil.GetDayJi(o.s(0), o.s(1)), LunarUtil.GetDayJiShen(o.a(0), o.s(1)), LunarUtil.GetDayXiongSha(o.a(0), o.s(1)),
			LunarUtil.GetTimeYi(o.s(1), o.s(2)), LunarUtil.GetTimeJi(o.s(1), o.s(2))}
	case "lu_xun":
		return []interface{}{LunarUtil.GetJiaZiIndex(o.s(0)), LunarUtil.GetXunIndex(o.s(0)), LunarUtil.GetXun(o.s(0)), LunarUtil.GetXunKong(o.s(0)),
			LunarUtil.GetTimeZhiIndex(o.s(1)), LunarUtil.ConvertTime(o.s(1))}
	case "sx":
		return []interface{}{ShouXingUtil.CalcShuo(o.f(0)), ShouXingUtil.CalcQi(o.f(0)), ShouXingUtil.QiAccurate2(o.f(0)), ShouXingUtil.DtT(o.f(0))}
	case "foto_xiu":
		return FotoUtil.GetXiu(o.a(0), o.a(1))
	case "week0":
		return calendar.NewSolarWeekFromYmd(o.a(0), o.a(1), o.a(2), o.a(3))
	case "smonth0":
		return calendar.NewSolarMonthFromYm(o.a(0), o.a(1))
	case "season0":
		return calendar.NewSolarSeasonFromYm(o.a(0), o.a(1))
	case "halfyear0":
		return calendar.NewSolarHalfYearFromYm(o.a(0), o.a(1))
	case "syear0":
		return calendar.NewSolarYearFromYear(o.a(0))
	case "smonth":
		return calendar.NewSolarMonthFromYm(o.a(0), o.a(1)).Next(o.a(2))
	case "season":
		return calendar.NewSolarSeasonFromYm(o.a(0), o.a(1)).Next(o.a(2))
	case "halfyear":
		return calendar.NewSolarHalfYearFromYm(o.a(0), o.a(1)).Next(o.a(2))
	case "syear":
		return calendar.NewSolarYearFromYear(o.a(0)).Next(o.a(1))
	}
	panic("ops: unknown op kind " + o.K)
}

// Run performs the call and digests the result; a panic of the library becomes
// the digest "PANIC:<message>".
func Run(o Op) (digest string) {
	defer func() {
		if r := recover(); r != nil {
			digest = "PANIC:" + fmt.Sprint(r)
		}
	}()
	if o.K == "sub" {
		v := Construct(*o.Sub)
		return DigestSubset(v, o.Acc, o.N)
	}
	d := o.D
	if d == 0 {
		d = 1
	}
	if d < 0 {
		d = 0 // minimal digest: the object's String() only, no further library calls
	}
	return Digest(Construct(o), d)
}

// ---------------------------------------------------------------------------
// digest

var listType = reflect.TypeOf((*list.List)(nil))
var timeType = reflect.TypeOf(time.Time{})

func isLib(t reflect.Type) bool {
	for t.Kind() == reflect.Ptr {
		t = t.Elem()
	}
	return t.Kind() == reflect.Struct && (strings.HasPrefix(t.PkgPath(), modPath) || strings.HasSuffix(t.PkgPath(), "harness/ops"))
}

// Acc is one read-only call on an object: a zero-argument accessor, or a method whose
// parameters are all int/bool (Next(n), GetYun(gender), ...BySect(sect), ...ByWholeDay(b))
// with canned arguments. Set* methods are mutators and are never called.
type Acc struct {
	Name  string
	Args  []reflect.Value
	Label string
}

var intKind = reflect.TypeOf(0)
var boolKind = reflect.TypeOf(false)

// Accessors lists the read-only calls of t; every int/bool-parameter method is listed once per value in ints.
func Accessors(t reflect.Type, ints []int) []Acc {
	var out []Acc
	for i := 0; i < t.NumMethod(); i++ {
		m := t.Method(i)
		if m.Type.NumOut() < 1 || strings.HasPrefix(m.Name, "Set") {
			continue
		}
		if m.Type.NumIn() == 1 {
			out = append(out, Acc{Name: m.Name, Label: m.Name})
			continue
		}
		ok := m.Type.NumIn() <= 3
		for p := 1; p < m.Type.NumIn() && ok; p++ {
			if pt := m.Type.In(p); pt != intKind && pt != boolKind {
				ok = false
			}
		}
		if !ok {
			continue
		}
		for _, v := range ints {
			a := Acc{Name: m.Name}
			var lab []string
			for p := 1; p < m.Type.NumIn(); p++ {
				if m.Type.In(p) == boolKind {
					b := (v+p)%2 == 0
					a.Args = append(a.Args, reflect.ValueOf(b))
					lab = append(lab, fmt.Sprint(b))
				} else {
					a.Args = append(a.Args, reflect.ValueOf(v))
					lab = append(lab, fmt.Sprint(v))
				}
			}
			a.Label = m.Name + "(" + strings.Join(lab, ",") + ")"
			out = append(out, a)
		}
	}
	sort.Slice(out, func(i, j int) bool { return out[i].Label < out[j].Label })
	return out
}

func basicOut(t reflect.Type) bool {
	switch t.Kind() {
	case reflect.String, reflect.Bool, reflect.Int, reflect.Int8, reflect.Int16, reflect.Int32, reflect.Int64,
		reflect.Uint, reflect.Uint8, reflect.Uint16, reflect.Uint32, reflect.Uint64, reflect.Float32, reflect.Float64:
		return true
	}
	return false
}

// Digest renders v; depth is the number of levels at which returned library
// objects are expanded accessor by accessor (below that: String(), or the
// basic-valued accessors if the type has no String method).
func Digest(v interface{}, depth int) string {
	var b strings.Builder
	render(&b, reflect.ValueOf(v), depth)
	return b.String()
}

// DigestSubset renders n accessors of v chosen by seed (depth 1 each).
func DigestSubset(v interface{}, seed uint64, n int) string {
	rv := reflect.ValueOf(v)
	if !rv.IsValid() || (rv.Kind() == reflect.Ptr && rv.IsNil()) || !isLib(rv.Type()) {
		return Digest(v, 1)
	}
	// two argument values for the int/bool-parameter methods, chosen by the seed
	pool := []int{0, 1, 2, -1, 3, 12, 1, 2}
	i1 := pool[seed%uint64(len(pool))]
	i2 := pool[(seed/8)%uint64(len(pool))]
	ints := []int{i1}
	if i2 != i1 {
		ints = append(ints, i2)
	}
	names := Accessors(rv.Type(), ints)
	if n <= 0 || n > len(names) {
		n = len(names)
	}
	// seeded partial shuffle
	x := seed
	idx := make([]int, len(names))
	for i := range idx {
		idx[i] = i
	}
	for i := 0; i < n; i++ {
		x += 0x9e3779b97f4a7c15
		z := x
		z = (z ^ (z >> 30)) * 0xbf58476d1ce4e5b9
		z = (z ^ (z >> 27)) * 0x94d049bb133111eb
		z ^= z >> 31
		j := i + int(z%uint64(len(idx)-i))
		idx[i], idx[j] = idx[j], idx[i]
	}
	var b strings.Builder
	b.WriteString(rv.Type().String() + "{")
	for _, i := range idx[:n] {
		callInto(&b, rv, names[i], 0)
	}
	b.WriteString("}")
	return b.String()
}

func callInto(b *strings.Builder, rv reflect.Value, a Acc, depth int) {
	b.WriteString(a.Label + "=")
	func() {
		defer func() {
			if r := recover(); r != nil {
				b.WriteString("PANIC(" + fmt.Sprint(r) + ")")
			}
		}()
		outs := rv.MethodByName(a.Name).Call(a.Args)
		for i, o := range outs {
			if i > 0 {
				b.WriteString(",")
			}
			render(b, o, depth)
		}
		if Scribble {
			for _, o := range outs {
				scribble(rv, o)
			}
		}
	}()
	b.WriteString(";")
}

func render(b *strings.Builder, v reflect.Value, depth int) {
	if !v.IsValid() {
		b.WriteString("nil")
		return
	}
	t := v.Type()
	switch {
	case t == listType:
		if v.IsNil() {
			b.WriteString("nil")
			return
		}
		l := v.Interface().(*list.List)
		b.WriteString("L[")
		for e := l.Front(); e != nil; e = e.Next() {
			render(b, reflect.ValueOf(e.Value), depth)
			b.WriteString(",")
		}
		b.WriteString("]")
		return
	case t == timeType:
		b.WriteString(v.Interface().(time.Time).Format(time.RFC3339Nano))
		return
	}
	switch v.Kind() {
	case reflect.Interface:
		if v.IsNil() {
			b.WriteString("nil")
			return
		}
		render(b, v.Elem(), depth)
	case reflect.Ptr:
		if v.IsNil() {
			b.WriteString("nil")
			return
		}
		if isLib(t) {
			renderObj(b, v, depth)
			return
		}
		render(b, v.Elem(), depth)
	case reflect.Struct:
		if isLib(t) {
			// value receiver: take an addressable copy so pointer methods are visible
			p := reflect.New(t)
			p.Elem().Set(v)
			renderObj(b, p, depth)
			return
		}
		b.WriteString(fmt.Sprintf("%v", v.Interface()))
	case reflect.Slice, reflect.Array:
		if v.Kind() == reflect.Slice && v.IsNil() {
			b.WriteString("[]")
			return
		}
		b.WriteString("[")
		for i := 0; i < v.Len(); i++ {
			render(b, v.Index(i), depth)
			b.WriteString(",")
		}
		b.WriteString("]")
	case reflect.Map:
		keys := v.MapKeys()
		sort.Slice(keys, func(i, j int) bool { return fmt.Sprint(keys[i].Interface()) < fmt.Sprint(keys[j].Interface()) })
		b.WriteString("M{")
		for _, k := range keys {
			b.WriteString(fmt.Sprint(k.Interface()) + ":")
			render(b, v.MapIndex(k), depth)
			b.WriteString(",")
		}
		b.WriteString("}")
	case reflect.String:
		b.WriteString(strconv.Quote(v.String()))
	case reflect.Float32, reflect.Float64:
		b.WriteString(strconv.FormatFloat(v.Float(), 'g', -1, 64))
	default:
		b.WriteString(fmt.Sprint(v.Interface()))
	}
}

func renderObj(b *strings.Builder, p reflect.Value, depth int) {
	t := p.Type()
	b.WriteString(t.Elem().Name() + "{")
	if t.Elem().PkgPath() != modPath+"/calendar" && t.Elem().PkgPath() != modPath+"/HolidayUtil" {
		// harness bundle: render exported fields
		e := p.Elem()
		for i := 0; i < e.NumField(); i++ {
			if e.Type().Field(i).PkgPath == "" {
				b.WriteString(e.Type().Field(i).Name + "=")
				render(b, e.Field(i), depth)
				b.WriteString(";")
			}
		}
		b.WriteString("}")
		return
	}
	names := Accessors(t, fullInts)
	if depth > 0 {
		for _, n := range names {
			callInto(b, p, n, depth-1)
		}
	} else {
		hasString := false
		for _, n := range names {
			if n.Name == "String" {
				hasString = true
			}
		}
		if hasString {
			callInto(b, p, Acc{Name: "String", Label: "String"}, 0)
		} else {
			for _, n := range names {
				if len(n.Args) > 0 {
					continue
				}
				m, _ := t.MethodByName(n.Name)
				if basicOut(m.Type.Out(0)) {
					callInto(b, p, n, 0)
				}
			}
		}
	}
	b.WriteString("}")
}

// fullInts are the argument values used for int/bool-parameter methods in full digests.
var fullInts = []int{1, 2}

// FirstDiff describes where two digests part.
func FirstDiff(a, b string) string {
	n := len(a)
	if len(b) < n {
		n = len(b)
	}
	i := 0
	for i < n && a[i] == b[i] {
		i++
	}
	lo := i - 120
	if lo < 0 {
		lo = 0
	}
	// back up to a rune boundary / accessor boundary
	if j := strings.LastIndex(a[lo:i], ";"); j >= 0 && i-(lo+j) < 400 {
		lo = lo + j + 1
	}
	cut := func(s string) string {
		hi := i + 160
		if hi > len(s) {
			hi = len(s)
		}
		if lo > len(s) {
			return ""
		}
		return strings.ToValidUTF8(s[lo:hi], "?")
	}
	return fmt.Sprintf("at byte %d: expected …%s… got …%s…", i, cut(a), cut(b))
}

// Scribble: a caller owns the containers a call hands to it. After rendering a returned list, slice or map that is
// not part of the receiver's own state (not reachable from its fields), the harness uses it the way callers do -
// takes an element out, or puts one in. If the library handed the same container to somebody else as well (a shared
// package-level list returned instead of a fresh one), that other call's result changes and the comparison with the
// fresh process shows it.
//
// OFF by default, and not part of any registered check: with VERIF_SCRIBBLE=1 the UNCHANGED library fails at once
// (EightChar.GetYearHideGan and its siblings return slices of the package-level table LunarUtil.ZHI_HIDE_GAN), which
// shows that "a caller changes a container it was handed" is outside what C09 states - the statement speaks of calls
// made before, not of writes into returned values - so a check built on it would demand more than the property.
var Scribble = os.Getenv("VERIF_SCRIBBLE") != ""

func scribble(recv, out reflect.Value) {
	for out.IsValid() && out.Kind() == reflect.Interface && !out.IsNil() {
		out = out.Elem()
	}
	if !out.IsValid() {
		return
	}
	var id uintptr
	switch {
	case out.Type() == listType:
		if out.IsNil() {
			return
		}
		id = out.Pointer()
	case out.Kind() == reflect.Slice:
		if out.IsNil() || out.Len() == 0 {
			return
		}
		id = out.Pointer()
	case out.Kind() == reflect.Map:
		if out.IsNil() || out.Len() == 0 {
			return
		}
		id = out.Pointer()
	default:
		return
	}
	seen := map[uintptr]bool{}
	own := map[uintptr]bool{}
	ownedContainers(recv, 0, seen, own)
	if own[id] {
		return // the receiver's own state, exposed: not the caller's to change
	}
	defer func() { recover() }()
	switch {
	case out.Type() == listType:
		l := out.Interface().(*list.List)
		if l.Len() > 0 {
			l.Remove(l.Front())
		} else {
			l.PushBack("caller's own element")
		}
	case out.Kind() == reflect.Slice:
		if e := out.Index(0); e.CanSet() {
			e.Set(reflect.Zero(e.Type()))
		}
	case out.Kind() == reflect.Map:
		keys := out.MapKeys()
		sort.Slice(keys, func(i, j int) bool { return fmt.Sprint(keys[i].Interface()) < fmt.Sprint(keys[j].Interface()) })
		out.SetMapIndex(keys[0], reflect.Value{})
	}
}

// ownedContainers collects the identities of the lists, slices and maps reachable from v through struct fields and
// pointers to library structs (the object's own state, including what it shares with the objects it refers to).
func ownedContainers(v reflect.Value, depth int, seen, own map[uintptr]bool) {
	if !v.IsValid() || depth > 4 {
		return
	}
	switch v.Kind() {
	case reflect.Interface:
		if !v.IsNil() {
			ownedContainers(v.Elem(), depth, seen, own)
		}
	case reflect.Ptr:
		if v.IsNil() {
			return
		}
		if v.Type() == listType {
			own[v.Pointer()] = true
			return
		}
		if seen[v.Pointer()] {
			return
		}
		seen[v.Pointer()] = true
		if v.Elem().Kind() == reflect.Struct {
			ownedContainers(v.Elem(), depth+1, seen, own)
		}
	case reflect.Struct:
		if v.Type() == timeType {
			return
		}
		if v.Type() == listType.Elem() {
			if v.CanAddr() {
				own[v.Addr().Pointer()] = true
			}
			return
		}
		for i := 0; i < v.NumField(); i++ {
			ownedContainers(v.Field(i), depth, seen, own)
		}
	case reflect.Slice:
		if !v.IsNil() {
			own[v.Pointer()] = true
		}
	case reflect.Map:
		if !v.IsNil() {
			own[v.Pointer()] = true
		}
	}
}
