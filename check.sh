#!/bin/bash
# check.sh <C09|C10|C14> <quick|thorough>     run a check (cwd must be /verif)
# check.sh --replay <file>                    replay a violation file
# check.sh --selftest <id>                    determinism self-test
# Exit 0 held / 1 VIOLATION / 2 machinery trouble (never a verdict).
set -u
cd "$(dirname "$0")" || exit 2
export GOFLAGS=-mod=mod GOPROXY=off GOSUMDB=off GOTOOLCHAIN=local CGO_ENABLED=0
ulimit -v 33554432 2>/dev/null || true
need_build=0
for b in bin/vsim bin/instrument; do
  [ -x "$b" ] || need_build=1
done
if [ $need_build = 0 ]; then
  # rebuild when any framework source is newer than the binaries
  if [ -n "$(find cmd harness simrt go.mod -newer bin/vsim -type f 2>/dev/null | head -1)" ]; then need_build=1; fi
fi
if [ $need_build = 1 ]; then
  mkdir -p bin
  go build -o bin/instrument ./cmd/instrument >&2 || { echo "check.sh: cannot build instrumenter" >&2; exit 2; }
  go build -o bin/vsim ./cmd/vsim >&2 || { echo "check.sh: cannot build driver" >&2; exit 2; }
fi
case "${1:-}" in
  --replay) exec bin/vsim replay "$2" ;;
  --selftest) exec bin/vsim selftest "$2" ;;
  C*) exec bin/vsim check "$1" "${2:-quick}" ;;
  *) echo "usage: check.sh <id> <quick|thorough> | --replay <file> | --selftest <id>" >&2; exit 2 ;;
esac
