#!/bin/bash
# tools/specificity.sh [first] [last]   - quick tier of all three checks under VERIF_SEED=first..last on the tree as it is;
# prints one line per (property, seed); any exit other than 0 is reported.
cd "$(dirname "$0")/.." || exit 2
a=${1:-2}; b=${2:-21}; bad=0
for p in C10 C14 C09; do
  for s in $(seq $a $b); do
    out=$(VERIF_SEED=$s ./check.sh $p quick 2>&1); rc=$?
    echo "$p seed=$s exit=$rc $(echo "$out" | tail -1)"
    if [ $rc != 0 ]; then bad=$((bad+1)); echo "$out" | grep -E "VIOLATION|violation|trouble" | head -5; fi
  done
done
echo "specificity: $bad non-zero exits"
[ $bad = 0 ]
