#!/bin/bash
# tools/refactor_regress.sh [id...] - apply every refactors/<id>/patch.diff (behaviour-preserving refactorings written by
# sub-agents) to /repo in turn, run the quick checks recorded in its meta.json, undo it; every exit must be 0.
cd "$(dirname "$0")/.." || exit 2
bad=0
ids="$@"; [ -z "$ids" ] && ids=$(ls refactors)
for id in $ids; do
  d=refactors/$id
  props=$(python3 -c "import json;print(' '.join(json.load(open('$d/meta.json'))['quick_check_exits'].keys()))")
  for prop in $props; do
    git -C /repo checkout -- . ; git -C /repo clean -fdq -- . ; git -C /repo apply $PWD/$d/patch.diff || { echo "$id APPLY-FAILED"; bad=$((bad+1)); continue 2; }
    out=$(timeout 3000 ./check.sh $prop quick 2>&1); rc=$?
    git -C /repo checkout -- . ; git -C /repo clean -fdq -- . 2>/dev/null
    echo "$id $prop exit=$rc $(echo "$out" | tail -1 | cut -c1-120)"
    if [ $rc != 0 ]; then bad=$((bad+1)); echo "$out" | grep -E "VIOLATION|violation |trouble|unsupported" | head -5 | cut -c1-300; fi
  done
done
echo "refactor_regress: $bad non-zero exits"
[ $bad = 0 ]
