#!/bin/bash
# tools/seed_eval.sh <name> <prop> [demo command override]
# Confirms a sub-agent's seeded defect in its worktree /tmp/wt-<name>, stores it under
# /verif/seeded/<name>/ and runs the property's quick check against it (applied to /repo, then reverted).
set -u
name=$1; prop=$2
wt=/tmp/wt-$name
export GOFLAGS=-mod=mod GOPROXY=off GOSUMDB=off GOTOOLCHAIN=local
out=/verif/seeded/$name
mkdir -p $out
cd $wt || exit 2
# patch = tracked changes + new files outside seeddemo
git add -N -- . ':!seeddemo' 2>/dev/null
git diff -- . ':!seeddemo' > $out/patch.diff
rm -rf $out/demo; cp -r seeddemo $out/demo
pkgs=$(go list ./... | grep -v /seeddemo)
suite=$(go test -vet=off -count=1 -timeout 10m $pkgs 2>&1 | grep -E "^(ok|FAIL|---)" | tr '\n' ' ')
democmd="go test -vet=off -count=1 -timeout 10m ./seeddemo/..."
if ls seeddemo/*.go 2>/dev/null | grep -qv _test.go && grep -lq "^package main" seeddemo/*.go 2>/dev/null; then democmd="go run ./seeddemo"; fi
[ -n "${3:-}" ] && democmd="$3"
with=$(timeout 900 bash -c "$democmd" > /tmp/seed_with.txt 2>&1; echo $?)
# (git stash is shared between worktrees: use diff/apply instead)
git apply -R $out/patch.diff
without=$(timeout 900 bash -c "$democmd" > /tmp/seed_without.txt 2>&1; echo $?)
git apply $out/patch.diff
echo "suite: $suite"
echo "demo with change: exit $with ; without: exit $without"
tail -5 /tmp/seed_with.txt | cut -c1-300
# run the check against /repo with the patch
cd /verif
git -C /repo checkout -- . && git -C /repo apply $out/patch.diff || { echo "APPLY FAILED"; exit 2; }
t0=$(date +%s)
timeout 1800 ./check.sh $prop quick > /tmp/seed_check.txt 2>&1; rc=$?
t1=$(date +%s)
git -C /repo checkout -- . ; git -C /repo clean -fdq -- . 2>/dev/null
grep -E "VIOLATION|violation |minimised|refused|gate|trouble|unsupported" /tmp/seed_check.txt | cut -c1-400
echo "check exit $rc in $((t1-t0))s"
python3 - "$name" "$prop" "$suite" "$with" "$without" "$rc" "$democmd" <<'PY'
import json,sys,re
name,prop,suite,w,wo,rc,democmd=sys.argv[1:8]
chk=open('/tmp/seed_check.txt').read()
v=re.findall(r'vsim: violation (\S+) key="([^"]*)"',chk)
meta_path='/verif/seeded/%s/meta.json'%name
try: meta=json.load(open(meta_path))
except Exception: meta={}
meta.update({"id":name,"breaks_property":prop,"suite_with_change":suite.strip(),"demo_command":democmd,
 "demo_exit_with_change":int(w),"demo_exit_without_change":int(wo),
 "check_command":"./check.sh %s quick (patch applied to /repo with git apply, reverted afterwards)"%prop,
 "check_exit":int(rc),"check_violation":({"class":v[0][0],"key":v[0][1]} if v else None)})
json.dump(meta,open(meta_path,'w'),indent=1,ensure_ascii=False)
PY
