#!/bin/bash
# tools/seeded_regress.sh - apply every seeded/<id>/patch.diff to /repo in turn, run the quick check of the
# property it breaks, undo it, and print one line per seeded change (exit 1 expected everywhere).
cd "$(dirname "$0")/.." || exit 2
missed=0
for d in seeded/*/; do
  id=$(basename $d); prop=$(python3 -c "import json;m=json.load(open('$d/meta.json'));print(m.get('caught_by') or m['breaks_property'])")
  git -C /repo checkout -- . ; git -C /repo apply $PWD/$d/patch.diff || { echo "$id APPLY-FAILED"; missed=$((missed+1)); continue; }
  out=$(timeout 1800 ./check.sh $prop quick 2>&1); rc=$?
  git -C /repo checkout -- . ; git -C /repo clean -fdq -- . 2>/dev/null
  v=$(echo "$out" | grep -m1 "vsim: violation" | cut -c1-160)
  never=$(python3 -c "import json;print(json.load(open('$d/meta.json')).get('caught',True))")
  if [ "$never" = "False" ]; then echo "$id $prop exit=$rc (recorded as never caught: see meta.json) $v"; continue; fi
  echo "$id $prop exit=$rc $v"
  [ $rc = 1 ] || missed=$((missed+1))
done
echo "seeded_regress: $missed not caught"
[ $missed = 0 ]
