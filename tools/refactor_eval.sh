#!/bin/bash
# tools/refactor_eval.sh <name> <prop>...  - a behaviour-preserving refactoring written by a sub-agent in /tmp/wt-<name>:
# store it under /verif/refactors/<name>/ and run the quick checks against it (must all exit 0).
set -u
name=$1; shift
wt=/tmp/wt-$name
export GOFLAGS=-mod=mod GOPROXY=off GOSUMDB=off GOTOOLCHAIN=local
out=/verif/refactors/$name; mkdir -p $out
cd $wt || exit 2
git add -N -- . ':!seeddemo' 2>/dev/null
git diff -- . ':!seeddemo' > $out/patch.diff
pkgs=$(go list ./... | grep -v /seeddemo)
suite=$(go test -vet=off -count=1 -timeout 10m $pkgs 2>&1 | grep -E "^(ok|FAIL|---)" | tr '\n' ' ')
echo "suite: $suite  patch: $(wc -l < $out/patch.diff) lines"
cd /verif
res=""
for prop in "$@"; do
  git -C /repo checkout -- . ; git -C /repo clean -fdq -- . ; git -C /repo apply $out/patch.diff || { echo "APPLY FAILED"; exit 2; }
  timeout 3000 ./check.sh $prop quick > /tmp/ref_check.txt 2>&1; rc=$?
  git -C /repo checkout -- . ; git -C /repo clean -fdq -- . 2>/dev/null
  echo "$prop exit $rc: $(tail -1 /tmp/ref_check.txt | cut -c1-200)"
  [ $rc != 0 ] && grep -E "VIOLATION|violation |trouble|refused|unsupported|gate" /tmp/ref_check.txt | head -8 | cut -c1-400
  res="$res $prop=$rc"
done
python3 - "$name" "$suite" "$res" <<'PY'
import json,sys
name,suite,res=sys.argv[1:4]
json.dump({"id":name,"kind":"behaviour-preserving refactoring by an independent sub-agent (given the property text; asked to keep the property)","suite":suite.strip(),
 "quick_check_exits":dict(x.split('=') for x in res.split())},open('/verif/refactors/%s/meta.json'%name,'w'),indent=1)
PY
