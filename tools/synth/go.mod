module github.com/6tail/lunar-go

go 1.14
