// Package synth exercises the syntax the instrumenter must rewrite without changing behaviour.
package synth

import (
	"container/list"
	"fmt"
	"sort"
	"strings"
	"sync"
	"sync/atomic"
	"time"
)

type inner struct {
	a, b int
	tags []string
}

type Obj struct {
	n     int
	name  string
	in    inner
	ptr   *inner
	m     map[string]int
	l     *list.List
	arr   [4]int
	sl    []int
	buf   strings.Builder
	mu    sync.Mutex
	once  sync.Once
	f     func(int) int
	iface fmt.Stringer
}

var (
	counter   int
	table     = map[string]int{"x": 1, "y": 2}
	cache     map[int]*Obj
	cacheLock sync.RWMutex
	scratch   strings.Builder
	hits      int64
	val       atomic.Value
	names     = []string{"a", "b", "c"}
	pool      = sync.Pool{New: func() interface{} { return new(inner) }}
	smap      sync.Map
	lastObj   *Obj
	grid      [3][3]int
)

func (o *Obj) String() string { return fmt.Sprintf("Obj(%d,%s)", o.n, o.name) }

func (in inner) Sum() int   { return in.a + in.b }
func (in *inner) Inc()      { in.a++ }
func (o *Obj) Inner() inner { return o.in }

func New(n int, name string) *Obj {
	o := new(Obj)
	o.n = n
	o.name = name
	o.in = inner{a: n, b: n * 2, tags: []string{name}}
	o.ptr = &inner{a: 1}
	o.m = map[string]int{}
	o.l = list.New()
	o.f = func(x int) int { return x + o.n }
	o.iface = o
	for i := range o.arr {
		o.arr[i] = i * n
	}
	o.sl = append(o.sl, 1, 2, 3)
	o.sl[1] += n
	counter++
	lastObj = o
	return o
}

func (o *Obj) Work() string {
	o.mu.Lock()
	defer o.mu.Unlock()
	o.once.Do(func() { o.m["once"] = 1 })
	o.m["k"]++
	o.m[o.name] = o.n
	delete(o.m, "nope")
	if v, ok := o.m["k"]; ok && v > 0 {
		o.n += v
	}
	o.l.PushBack(o.n)
	o.l.PushFront("f")
	o.in.Inc()
	o.ptr.Inc()
	o.ptr.a, o.ptr.b = o.ptr.b, o.ptr.a
	o.buf.Reset()
	o.buf.WriteString(o.name)
	scratch.Reset()
	scratch.WriteString("s")
	s := o.in.Sum() + o.Inner().Sum() + o.f(2) + len(o.iface.String())
	for i, v := range o.sl {
		s += i * v
	}
	for i := range o.arr {
		o.arr[i]++
		s += o.arr[i]
	}
	sub := o.sl[1:]
	sub[0] = 9
	grid[1][2] = s
	grid[0][0]++
	var keys []string
	for k, v := range o.m {
		keys = append(keys, fmt.Sprintf("%s=%d", k, v))
	}
	sort.Strings(keys)
	for k := range table {
		keys = append(keys, k)
	}
	sort.Strings(keys)
	for range o.m {
		s++
	}
	n := 0
	for e := o.l.Front(); e != nil; e = e.Next() {
		n++
	}
	switch x := o.iface.(type) {
	case *Obj:
		s += x.n
	}
	switch {
	case o.n > 3:
		s++
	default:
		s--
	}
outer:
	for i := 0; i < 3; i++ {
		for j := 0; j < 3; j++ {
			if j == 2 {
				continue outer
			}
			if i == 2 {
				break outer
			}
			s += grid[i][j]
		}
	}
	p := &o.n
	*p += 1
	q := &o.in
	q.b += 1
	func() {
		defer func() { recover() }()
		var nilObj *Obj
		_ = nilObj.n
	}()
	return fmt.Sprint(s, n, keys, o.buf.String(), scratch.String(), o.l.Len(), o.ptr.a, o.ptr.b, *p, q.b, grid)
}

func Cached(n int) *Obj {
	cacheLock.RLock()
	o, ok := cache[n]
	cacheLock.RUnlock()
	if ok {
		atomic.AddInt64(&hits, 1)
		return o
	}
	cacheLock.Lock()
	defer cacheLock.Unlock()
	if cache == nil {
		cache = make(map[int]*Obj)
	}
	if o, ok = cache[n]; !ok {
		o = New(n, names[n%len(names)])
		cache[n] = o
	}
	val.Store(o)
	smap.Store(n, o)
	in := pool.Get().(*inner)
	in.a = n
	pool.Put(in)
	return o
}

func Parallel(n int) int {
	var wg sync.WaitGroup
	res := make([]int, n)
	for i := 0; i < n; i++ {
		wg.Add(1)
		go func(i int, scale int) {
			defer wg.Done()
			res[i] = i * scale
		}(i, n)
	}
	wg.Wait()
	t := 0
	for _, v := range res {
		t += v
	}
	var cnt int32
	wg.Add(1)
	go bump(&cnt, &wg)
	wg.Wait()
	return t + int(atomic.LoadInt32(&cnt))
}

func bump(p *int32, wg *sync.WaitGroup) {
	atomic.AddInt32(p, 5)
	wg.Done()
}

func Summary() string {
	var ks []string
	smap.Range(func(k, v interface{}) bool {
		ks = append(ks, fmt.Sprint(k, v.(*Obj).name))
		return true
	})
	sort.Strings(ks)
	last, _ := val.Load().(*Obj)
	y := time.Now().Year() > 1
	return fmt.Sprint(counter, atomic.LoadInt64(&hits), ks, last, lastObj.n, y)
}

// ---- channels ---------------------------------------------------------------

type bufT struct{ xs []int }

var freeList = make(chan *bufT, 2)
var sem = make(chan struct{}, 1)
var guarded int

func borrow() *bufT {
	select {
	case b := <-freeList:
		b.xs = b.xs[:0]
		return b
	default:
		return &bufT{}
	}
}

func giveBack(b *bufT) {
	select {
	case freeList <- b:
	default:
	}
}

func Channels(n int) string {
	b := borrow()
	for i := 0; i < n; i++ {
		b.xs = append(b.xs, i)
	}
	sum := 0
	for _, v := range b.xs {
		sum += v
	}
	giveBack(b)
	// unbuffered rendezvous + range + close
	ch := make(chan int)
	done := make(chan bool)
	var out []int
	go func() {
		for v := range ch {
			out = append(out, v*2)
		}
		done <- true
	}()
	for i := 0; i < n; i++ {
		ch <- i
	}
	close(ch)
	ok := <-done
	// buffered channel as a mutex
	var wg sync.WaitGroup
	for i := 0; i < 3; i++ {
		wg.Add(1)
		go func() {
			defer wg.Done()
			sem <- struct{}{}
			guarded++
			<-sem
		}()
	}
	wg.Wait()
	v, more := <-ch
	var rd <-chan int = ch
	_ = rd
	res := make(chan string, 1)
	select {
	case res <- "sent":
	case <-done:
	}
	return fmt.Sprint(sum, out, ok, guarded, v, more, len(freeList), cap(freeList), <-res)
}

// ---- sync.Cond and time.Sleep ------------------------------------------------

func CondQueue(n int) int {
	var mu sync.Mutex
	cond := sync.NewCond(&mu)
	var queue []int
	total := 0
	done := make(chan struct{})
	go func() {
		for got := 0; got < n; got++ {
			mu.Lock()
			for len(queue) == 0 {
				cond.Wait()
			}
			total += queue[0]
			queue = queue[1:]
			mu.Unlock()
		}
		close(done)
	}()
	for i := 1; i <= n; i++ {
		mu.Lock()
		queue = append(queue, i)
		mu.Unlock()
		cond.Signal()
		time.Sleep(time.Microsecond)
	}
	<-done
	return total
}

// ---- shadowed range variables over maps and channels --------------------------

func Shadow() string {
	m := map[string][]int{"a": {3, 1, 2}, "b": {9, 8}}
	total := 0
	for k, v := range m {
		k, v := k, v
		v = append([]int{}, v...)
		sort.Ints(v)
		total += len(k) + v[0]
	}
	ch := make(chan int, 3)
	ch <- 4
	ch <- 5
	close(ch)
	for x := range ch {
		x := x * 2
		total += x
	}
	return fmt.Sprint(total)
}

// ---- a named channel type with methods ------------------------------------------

type bufPool chan []string

var spare = make(bufPool, 2)

func (p bufPool) get() (b []string) {
	select {
	case b = <-p:
	default:
		b = make([]string, 0, 4)
	}
	return b[:0]
}

func (p bufPool) put(b []string) {
	if p == nil {
		return
	}
	select {
	case p <- b:
	default:
	}
}

func NamedChan() string {
	b := spare.get()
	b = append(b, "x", "y")
	n := len(b)
	spare.put(b)
	c := spare.get()
	spare.put(c)
	return fmt.Sprint(n, len(spare), cap(spare), len(c))
}

// ---- an anonymous struct variable that embeds its lock ------------------------------

var memo = struct {
	sync.RWMutex
	m map[int]int
}{m: map[int]int{}}

func Memo(k int) int {
	memo.RLock()
	v, ok := memo.m[k]
	memo.RUnlock()
	if ok {
		return v
	}
	memo.Lock()
	defer memo.Unlock()
	memo.m[k] = k * k
	return k * k
}
