package main

import (
	"fmt"

	"github.com/6tail/lunar-go/synth"
)

func main() {
	a := synth.New(3, "q")
	fmt.Println(a.Work())
	fmt.Println(a.Work())
	for i := 0; i < 5; i++ {
		fmt.Println(synth.Cached(i%3).Work())
	}
	fmt.Println(synth.Parallel(6))
	fmt.Println(synth.Channels(4))
	fmt.Println(synth.Channels(3))
	fmt.Println(synth.CondQueue(5))
	fmt.Println(synth.Shadow())
	fmt.Println(synth.NamedChan())
	fmt.Println(synth.Memo(7), synth.Memo(7))
	fmt.Println(synth.Summary())
}
