#!/bin/bash
# tools/flood_refactor_check.sh [ids...] - false-alarm test of the volume fault: the refactorings that keep BOUNDED
# caches (r09 128-entry LRU, rI bounded FIFO store, rM 128-entry second-chance cache, rO resources smaller than the
# callers, rD/r14 holiday index snapshots) are applied to a scratch worktree (never to /repo) and checked with a
# raised share of flooded runs (VERIF_FLOOD_P=0.25 for C09; C14 floods 10% of histories as registered). All must exit 0.
cd "$(dirname "$0")/.." || exit 2
ids=${*:-"r09 rI rM rO rD r14"}
bad=0
for id in $ids; do
  wt=/tmp/rf-$id
  git -C /repo worktree add -f $wt HEAD -q || exit 2
  git -C $wt apply $PWD/refactors/$id/patch.diff || { echo "$id APPLY-FAILED"; git -C /repo worktree remove --force $wt; bad=$((bad+1)); continue; }
  props="C09"; case $id in rD|r14|rJ) props="C14 C09";; esac
  for p in $props; do
    out=$(VERIF_REPO=$wt VERIF_FLOOD_P=0.25 timeout 3000 ./check.sh $p quick 2>&1); rc=$?
    echo "$id $p exit=$rc $(echo "$out" | tail -1 | cut -c1-160)"
    [ $rc = 0 ] || { bad=$((bad+1)); echo "$out" | grep -E "VIOLATION|violation |trouble|unsupported" | head -5 | cut -c1-300; }
  done
  git -C /repo worktree remove --force $wt
done
echo "flood_refactor_check: $bad not green"
[ $bad = 0 ]
