#!/bin/bash
# tools/instrument_selftest.sh - the instrumenter on a synthetic package that uses every construct it rewrites:
# instrumented (pass-through) output must equal plain output.
cd "$(dirname "$0")/.." || exit 2
export GOFLAGS=-mod=mod GOPROXY=off GOSUMDB=off GOTOOLCHAIN=local
go build -o bin/instrument ./cmd/instrument || exit 2
d=$(mktemp -d); trap 'rm -rf $d' EXIT
(cd tools/synth && go run ./cmdmain) > $d/plain.txt 2>&1 || { cat $d/plain.txt; echo "plain synth failed"; exit 2; }
bin/instrument -src $PWD/tools/synth -dst $d/inst -simrt $PWD/simrt > $d/inst.log 2>&1 || { cat $d/inst.log; echo "instrument failed"; exit 2; }
(cd $d/inst && go vet ./synth/ 2>&1 | head -5; go run ./cmdmain) > $d/inst.txt 2>&1 || { cat $d/inst.txt | head -30; echo "instrumented synth failed"; exit 2; }
if diff $d/plain.txt $d/inst.txt > $d/diff.txt; then echo "instrument_selftest: identical output ($(wc -l < $d/plain.txt) lines), $(grep -c 'simrt\.' $d/inst/synth/synth.go) rewritten lines"; else cat $d/diff.txt | head -20; echo "instrument_selftest: OUTPUT DIFFERS"; exit 1; fi
