// Package simrt is the simulation runtime that /verif/cmd/instrument links into a
// scratch copy of lunar-go (as github.com/6tail/lunar-go/simrt).
//
// In pass-through mode (the default) every seam behaves exactly like the
// standard-library construct it replaces. Inside Run(...) the package owns
// scheduling: simulated tasks are real goroutines but exactly one holds the
// baton; a task gives it up only at a scheduling point, and the policy (seeded
// PRNG or a recorded decision list) names the next task.
//
// Nothing here reads the real clock, math/rand, or iterates a Go map in a path
// that influences a decision or a log line.
package simrt

import (
	"fmt"
	"os"
	"runtime"
	"sort"
	"strings"
	"sync"
	"time"
	"unsafe"
)

// Class of an instrumented site.
type Class uint8

const (
	ClsSync Class = iota
	ClsGlobal
	ClsFieldW
	ClsFieldR
	ClsElem
	ClsMap
	ClsList
	ClsClock
	ClsOp
	numClasses
)

var ClassNames = [...]string{"SYNC", "GLOBAL", "FIELD_W", "FIELD_R", "ELEM", "MAP", "LIST", "CLOCK", "OP"}

// SiteInfo is one row of the table the instrumenter generates (zz_sites.go).
type SiteInfo struct {
	Class Class
	Pos   string // file:line
	Func  string
	Expr  string // what is accessed, e.g. "Lunar.eightChar" or "CACHE_YEAR"
}

// Sites is filled by the generated file in the instrumented copy.
var Sites []SiteInfo

const MaxTasks = 64

type vclock [MaxTasks]uint32

func (a *vclock) join(b *vclock) {
	for i := range a {
		if b[i] > a[i] {
			a[i] = b[i]
		}
	}
}

// ---------------------------------------------------------------------------
// configuration and results

type Decision struct {
	T      int    `json:"t"`             // task that was running
	L      uint64 `json:"l"`             // its local point counter
	To     int    `json:"to"`            // task chosen
	Forced bool   `json:"f,omitempty"`   // current task could not continue
	Sel    bool   `json:"sel,omitempty"` // To is the clause chosen by a select with several ready clauses
}

type Faults struct {
	Stall bool `json:"stall"`
}

type Config struct {
	Seed      uint64     `json:"seed"`
	Policy    string     `json:"policy"` // seq | rr | random | pct | targeted
	SwitchP   float64    `json:"switch_p"`
	PCTDepth  int        `json:"pct_depth"`
	PCTSpan   int        `json:"pct_span"`
	Targeted  []int      `json:"targeted_classes"`
	Faults    Faults     `json:"faults"`
	StallP    float64    `json:"stall_p"`
	StepCap   uint64     `json:"step_cap"`
	Decisions []Decision `json:"-"`
	Replay    bool       `json:"-"`
	// IgnoreRaces: unordered location-name pairs ("A|B") that are recorded as
	// known hits and do not stop the run.
	IgnoreRaces []string `json:"-"`
	LogPath     string   `json:"-"`
}

type Violation struct {
	Class  string            `json:"class"`
	Key    string            `json:"key"`
	Detail map[string]string `json:"detail"`
}

type Result struct {
	Violation   *Violation        `json:"violation,omitempty"`
	Internal    string            `json:"internal,omitempty"`
	Steps       uint64            `json:"steps"`
	Eligible    uint64            `json:"eligible"`
	Switches    uint64            `json:"switches"`
	InCall      uint64            `json:"switches_in_call"`
	LogHash     string            `json:"log_hash"`
	ConflictSig string            `json:"conflict_sig"`
	Faults      map[string]uint64 `json:"fault_fired"`
	Probes      map[string]uint64 `json:"probes"`
	Decisions   []Decision        `json:"decisions"`
	KnownHits   map[string]uint64 `json:"known_hits,omitempty"`
	Locations   int               `json:"locations"`
}

// ---------------------------------------------------------------------------
// global simulation state (one run per process)

type task struct {
	id         int
	wake       chan struct{}
	done       bool
	blocked    waitable
	stallTo    uint64 // not runnable while gstep < stallTo
	vc         vclock
	local      uint64
	held       []*Mutex
	heldRW     []*RWMutex
	prio       int
	inCall     bool // between BeginCall/EndCall
	fn         func()
	lastSite   int32
	callSteps  uint64
	callBudget uint64
	callLabel  string
	spawned    bool // started by the library through a go statement
	streak     int  // consecutive synchronisation points without any memory access in between (spin detection)
}

type waitable interface{ canProceed(t *task) bool }

type loc struct {
	ord   int32
	wT    int8 // -1 none
	rT    int8 // -1 none, -2 vector
	wC    uint32
	rC    uint32
	wS    int32
	rS    int32
	rv    *vclock
	rvS   *[MaxTasks]int32
	lastT int8
	multi bool // touched by more than one task
	sig   uint64
}

var (
	active   bool
	cfg      Config
	tasks    []*task
	cur      *task
	gstep    uint64
	eligible uint64
	switches uint64
	inCallSw uint64
	rng      xo
	locs     map[unsafe.Pointer]*loc
	locKeep  []unsafe.Pointer
	decided  []Decision
	replay   map[[2]uint64]Decision
	logh     uint64
	logf     *os.File
	probes   map[string]uint64
	faultsF  map[string]uint64
	known    map[string]uint64
	ignore   map[string]bool
	mainWake chan struct{}
	result   *Result
	pctChg   []uint64
	pctLow   int
	targeted [numClasses]bool
	stallBud int
	finished bool
	onAbort  func(*Result)
)

// Active reports whether a simulation is running.
func Active() bool { return active }

// CurTask returns the id of the running simulated task, or -1.
func CurTask() int {
	if cur == nil {
		return -1
	}
	return cur.id
}

// ---------------------------------------------------------------------------
// PRNG: xoshiro256**, seeded by splitmix64

type xo struct{ s [4]uint64 }

func splitmix(x *uint64) uint64 {
	*x += 0x9e3779b97f4a7c15
	z := *x
	z = (z ^ (z >> 30)) * 0xbf58476d1ce4e5b9
	z = (z ^ (z >> 27)) * 0x94d049bb133111eb
	return z ^ (z >> 31)
}

func newXo(seed uint64) xo {
	var r xo
	for i := range r.s {
		r.s[i] = splitmix(&seed)
	}
	return r
}

func rotl(x uint64, k uint) uint64 { return (x << k) | (x >> (64 - k)) }

func (r *xo) next() uint64 {
	s := &r.s
	res := rotl(s[1]*5, 7) * 9
	t := s[1] << 17
	s[2] ^= s[0]
	s[3] ^= s[1]
	s[1] ^= s[2]
	s[0] ^= s[3]
	s[2] ^= t
	s[3] = rotl(s[3], 45)
	return res
}

func (r *xo) intn(n int) int {
	if n <= 1 {
		return 0
	}
	return int(r.next() % uint64(n))
}

func (r *xo) float() float64 { return float64(r.next()>>11) / (1 << 53) }

// ---------------------------------------------------------------------------
// logging (never draws from the PRNG, never reads a clock)

func logEv(kind byte, a, b, c uint64) {
	h := logh
	for _, v := range [4]uint64{uint64(kind), a, b, c} {
		for i := 0; i < 8; i++ {
			h ^= (v >> (8 * uint(i))) & 0xff
			h *= 0x100000001b3
		}
	}
	logh = h
	if logf != nil {
		fmt.Fprintf(logf, "%c %d %d %d\n", kind, a, b, c)
	}
}

// LogNote lets the harness add its own events (op results) to the event log.
func LogNote(kind byte, a uint64, s string) {
	var h uint64 = 0xcbf29ce484222325
	for i := 0; i < len(s); i++ {
		h ^= uint64(s[i])
		h *= 0x100000001b3
	}
	t := uint64(0)
	if cur != nil {
		t = uint64(cur.id)
	}
	logEv(kind, t, a, h)
}

func probe(name string) { probes[name]++ }

// Probe lets the harness count reach probes.
func Probe(name string) {
	if probes != nil {
		probes[name]++
	}
}

// ---------------------------------------------------------------------------
// Run

// Run executes fns as simulated tasks under cfg and returns when all have
// finished or a violation/abort ended the run. abort is called (on whatever
// goroutine detects the end) when the run cannot continue (deadlock, race,
// step cap); it must not return (os.Exit) because parked goroutines cannot be
// unwound.
func Run(c Config, fns []func(), abort func(*Result)) *Result {
	if len(fns) > MaxTasks {
		panic("simrt: too many tasks")
	}
	cfg = c
	if cfg.StepCap == 0 {
		cfg.StepCap = 600_000_000
	}
	rng = newXo(cfg.Seed)
	locs = make(map[unsafe.Pointer]*loc, 1<<14)
	probes = map[string]uint64{}
	faultsF = map[string]uint64{}
	known = map[string]uint64{}
	ignore = map[string]bool{}
	for _, k := range cfg.IgnoreRaces {
		ignore[k] = true
	}
	logh = 0xcbf29ce484222325
	if cfg.LogPath != "" {
		f, err := os.Create(cfg.LogPath)
		if err == nil {
			logf = f
		}
	}
	onAbort = abort
	mainWake = make(chan struct{}, 1)
	result = &Result{}
	if cfg.Replay {
		replay = make(map[[2]uint64]Decision, len(cfg.Decisions))
		for _, d := range cfg.Decisions {
			if d.Sel {
				replay[[2]uint64{uint64(d.T) | 1<<40, d.L}] = d
				continue
			}
			replay[[2]uint64{uint64(d.T), d.L}] = d
		}
	}
	for _, cl := range cfg.Targeted {
		if cl >= 0 && cl < int(numClasses) {
			targeted[cl] = true
		}
	}
	tasks = nil
	for i, f := range fns {
		t := &task{id: i, wake: make(chan struct{}, 1), fn: f, prio: 0}
		t.vc[i] = 1
		tasks = append(tasks, t)
	}
	// PCT set-up: distinct random priorities, change points
	if cfg.Policy == "pct" && !cfg.Replay {
		perm := make([]int, len(tasks))
		for i := range perm {
			perm[i] = i
		}
		for i := len(perm) - 1; i > 0; i-- {
			j := rng.intn(i + 1)
			perm[i], perm[j] = perm[j], perm[i]
		}
		for i, t := range tasks {
			t.prio = perm[i] + cfg.PCTDepth + 1
		}
		span := cfg.PCTSpan
		if span < 8 {
			span = 8
		}
		for i := 0; i < cfg.PCTDepth-1; i++ {
			pctChg = append(pctChg, uint64(1+rng.intn(span)))
		}
		sort.Slice(pctChg, func(i, j int) bool { return pctChg[i] < pctChg[j] })
		pctLow = cfg.PCTDepth
	}
	stallBud = 0
	if cfg.Faults.Stall && !cfg.Replay {
		stallBud = 1 + rng.intn(3)
	}
	for _, t := range tasks {
		t := t
		go func() {
			<-t.wake
			t.fn()
			taskDone(t)
		}()
	}
	active = true
	first := pickFirst()
	cur = first
	first.wake <- struct{}{}
	<-mainWake
	active = false
	cur = nil
	fillResult()
	return result
}

func pickFirst() *task {
	if cfg.Replay {
		if d, ok := replay[[2]uint64{^uint64(0), 0}]; ok && d.To >= 0 && d.To < len(tasks) {
			if d.To != 0 {
				decided = append(decided, Decision{T: -1, L: 0, To: d.To, Forced: true})
			}
			return tasks[d.To]
		}
		return tasks[0]
	}
	var t *task
	switch cfg.Policy {
	case "pct":
		t = highest(nil)
	case "seq", "rr":
		t = tasks[0]
	default:
		t = tasks[rng.intn(len(tasks))]
	}
	if t.id != 0 {
		decided = append(decided, Decision{T: -1, L: 0, To: t.id, Forced: true})
	}
	return t
}

func fillResult() {
	result.Steps = gstep
	result.Eligible = eligible
	result.Switches = switches
	result.InCall = inCallSw
	result.LogHash = fmt.Sprintf("%016x", logh)
	var sig uint64
	// order-independent combination: locations are visited via locKeep (creation order), not map order
	for _, p := range locKeep {
		l := locs[p]
		if l.multi {
			sig += l.sig*0x9e3779b97f4a7c15 + uint64(l.ord)
		}
	}
	result.ConflictSig = fmt.Sprintf("%016x", sig)
	result.Faults = faultsF
	result.Probes = probes
	result.Decisions = decided
	result.KnownHits = known
	result.Locations = len(locKeep)
	if logf != nil {
		logf.Close()
	}
}

func abortRun(v *Violation, internal string) {
	if finished {
		select {}
	}
	finished = true
	result.Violation = v
	result.Internal = internal
	active = false
	fillResult()
	if onAbort != nil {
		onAbort(result)
	}
	os.Exit(3)
}

// Fail lets the harness end the run with its own violation (e.g. a digest
// mismatch) from inside a task.
func Fail(class, key string, detail map[string]string) {
	abortRun(&Violation{Class: class, Key: key, Detail: detail}, "")
}

func taskDone(t *task) {
	t.done = true
	logEv('D', uint64(t.id), 0, 0)
	if len(t.held) > 0 || len(t.heldRW) > 0 {
		// cannot happen if the harness calls EndCall; defensive
		leak(t, "task finished")
	}
	t.local++ // its own key: the last point of the task may already carry a recorded switch
	n := pickForced(t)
	if n == nil {
		if callersDone() {
			mainWake <- struct{}{}
			return
		}
		deadlock(t)
		return
	}
	cur = n
	switches++
	n.wake <- struct{}{}
}

func runnable(t *task) bool {
	if t.done {
		return false
	}
	if t.stallTo > gstep {
		return false
	}
	if t.blocked != nil && !t.blocked.canProceed(t) {
		return false
	}
	return true
}

func highest(except *task) *task {
	var best *task
	for _, t := range tasks {
		if t == except || !runnable(t) {
			continue
		}
		if best == nil || t.prio > best.prio {
			best = t
		}
	}
	return best
}

func others(except *task) []*task {
	var out []*task
	for _, t := range tasks {
		if t != except && runnable(t) {
			out = append(out, t)
		}
	}
	return out
}

// pickForced: t cannot continue (blocked, stalled or done). Returns nil if no
// task can run.
func pickForced(t *task) *task {
	for {
		var n *task
		if cfg.Replay {
			if d, ok := replay[[2]uint64{uint64(t.id), t.local}]; ok && d.To >= 0 && d.To < len(tasks) && tasks[d.To] != t && runnable(tasks[d.To]) {
				n = tasks[d.To]
			} else if o := others(t); len(o) > 0 {
				n = o[0]
			}
		} else {
			switch cfg.Policy {
			case "pct":
				n = highest(t)
			case "seq", "rr":
				// next in id order
				for i := 1; i <= len(tasks); i++ {
					c := tasks[(t.id+i)%len(tasks)]
					if c != t && runnable(c) {
						n = c
						break
					}
				}
			default:
				if o := others(t); len(o) > 0 {
					n = o[rng.intn(len(o))]
				}
			}
		}
		if n != nil {
			decided = append(decided, Decision{T: t.id, L: t.local, To: n.id, Forced: true})
			logEv('F', uint64(t.id), t.local, uint64(n.id))
			return n
		}
		// nobody runnable: release the earliest stall, if any
		var st *task
		for _, o := range tasks {
			if !o.done && o.stallTo > gstep && (o.blocked == nil || o.blocked.canProceed(o)) {
				if st == nil || o.stallTo < st.stallTo {
					st = o
				}
			}
		}
		if st == nil {
			return nil
		}
		gstep = st.stallTo
		if st == t {
			return t
		}
	}
}

func switchTo(me, n *task) {
	if n == me {
		return
	}
	switches++
	if me.inCall {
		inCallSw++
		if len(me.held) > 0 {
			probe("preempt_holding_mutex")
		}
	}
	cur = n
	n.wake <- struct{}{}
	<-me.wake
}

// block parks t until its waitable lets it proceed.
func block(t *task, w waitable) {
	for !w.canProceed(t) {
		t.blocked = w
		t.local++
		n := pickForced(t)
		if n == nil {
			if callersDone() {
				// every caller has returned; what is left are goroutines the library keeps for later (an idle worker
				// pool waiting on its request channel): the end of the run, not a blocked library
				probe("idle_library_goroutines_at_end_of_run")
				mainWake <- struct{}{}
				select {}
			}
			deadlock(t)
		}
		if n != t {
			switchTo(t, n)
		}
	}
	t.blocked = nil
}

// callersDone: every task started by the harness (a caller) has finished; goroutines started by the library may remain.
func callersDone() bool {
	for _, o := range tasks {
		if !o.spawned && !o.done {
			return false
		}
	}
	return true
}

func deadlock(t *task) {
	d := map[string]string{}
	var parts []string
	key := ""
	for _, o := range tasks {
		if o.done {
			continue
		}
		s := fmt.Sprintf("task %d blocked", o.id)
		if m, ok := o.blocked.(*Mutex); ok && m != nil {
			s += fmt.Sprintf(" on mutex#%d locked at %s by task %d (%s)", m.ord, m.lockedAt, m.holder, m.holderLeft)
			if key == "" {
				key = "mutex locked at " + m.lockedFn + "; holder " + m.holderLeft
			}
		} else if o.blocked != nil {
			s += fmt.Sprintf(" on %T", o.blocked)
			if key == "" {
				key = fmt.Sprintf("%T", o.blocked)
			}
		}
		parts = append(parts, s)
	}
	d["blocked"] = strings.Join(parts, "; ")
	abortRun(&Violation{Class: "LIBRARY_BLOCKED", Key: key, Detail: d}, "")
}

// Go starts f as a new simulated task (the instrumented form of a `go` statement inside the library).
func Go(f func()) {
	if !active || cur == nil {
		// the single-caller reasoning of Solo mode ends where the library starts its own goroutines
		soloMulti.Store(true)
		go f()
		return
	}
	parent := cur
	point(parent, -1, ClsSync, true)
	id := len(tasks)
	var base uint32
	if id >= MaxTasks {
		// recycle the slot of a finished library goroutine: its clock component simply continues
		// (costs precision only: a race between the old and the new occupant of the slot is not seen)
		id = -1
		for _, o := range tasks {
			if o.done && o.spawned {
				id = o.id
				base = o.vc[o.id]
				break
			}
		}
		if id < 0 {
			abortRun(nil, "library keeps more goroutines alive than the simulator tracks")
		}
	}
	child := &task{id: id, wake: make(chan struct{}, 1), prio: parent.prio, spawned: true}
	child.vc = parent.vc
	if child.vc[id] < base {
		child.vc[id] = base
	}
	child.vc[id]++
	parent.vc[parent.id]++
	child.inCall = true
	child.fn = func() {
		defer func() {
			if r := recover(); r != nil {
				abortRun(&Violation{Class: "LIBRARY_CRASH", Key: "panic in a goroutine started by the library", Detail: map[string]string{"panic": fmt.Sprint(r)}}, "")
			}
		}()
		f()
	}
	if id == len(tasks) {
		tasks = append(tasks, child)
	} else {
		tasks[id] = child
	}
	logEv('G', uint64(parent.id), uint64(child.id), 0)
	probe("library_goroutine")
	go func() {
		<-child.wake
		child.fn()
		taskDone(child)
	}()
	point(parent, -1, ClsSync, true)
}

// ---------------------------------------------------------------------------
// scheduling points

// point is called by the running task at a potential scheduling point.
func point(t *task, site int32, cls Class, elig bool) {
	t.local++
	gstep++
	if gstep > cfg.StepCap {
		abortRun(nil, "step cap exceeded")
	}
	if t.inCall && t.callBudget > 0 {
		t.callSteps++
		if t.callSteps > t.callBudget {
			abortRun(&Violation{Class: "NO_PROGRESS", Key: "call did not return: " + strings.SplitN(t.callLabel, "(", 2)[0],
				Detail: map[string]string{"call": t.callLabel, "steps_in_this_call": fmt.Sprint(t.callSteps),
					"note": "the same call, made first in a fresh process, returned after a small fraction of these steps; here the task kept running (it was not waiting for anybody) and did not return"}}, "")
		}
	}
	if cls == ClsSync {
		t.streak++
		if t.streak > 100 && !cfg.Replay {
			// a task spinning on atomics/TryLock: a fair scheduler lets the others run
			if o := others(t); len(o) > 0 {
				t.streak = 0
				// round-robin among the runnable others: every one of them gets the baton in turn
				n := o[0]
				for _, c := range o {
					if c.id > t.id {
						n = c
						break
					}
				}
				if cfg.Policy == "pct" {
					pctLow--
					t.prio = pctLow
					if h := highest(t); h != nil {
						n = h
					}
				}
				probe("spin_yield")
				decided = append(decided, Decision{T: t.id, L: t.local, To: n.id})
				logEv('S', uint64(t.id), t.local, uint64(n.id))
				switchTo(t, n)
				return
			}
		}
	} else {
		t.streak = 0
	}
	if cfg.Replay {
		if d, ok := replay[[2]uint64{uint64(t.id), t.local}]; ok && !d.Forced {
			if d.To >= 0 && d.To < len(tasks) && tasks[d.To] != t && runnable(tasks[d.To]) {
				eligible++
				decided = append(decided, Decision{T: t.id, L: t.local, To: d.To})
				logEv('S', uint64(t.id), t.local, uint64(d.To))
				switchTo(t, tasks[d.To])
			}
		}
		return
	}
	if !elig {
		return
	}
	eligible++
	var n *task
	switch cfg.Policy {
	case "seq":
		return
	case "rr":
		if cls != ClsOp {
			return
		}
		for i := 1; i < len(tasks); i++ {
			c := tasks[(t.id+i)%len(tasks)]
			if runnable(c) {
				n = c
				break
			}
		}
	case "random":
		if rng.float() < cfg.SwitchP {
			if o := others(t); len(o) > 0 {
				n = o[rng.intn(len(o))]
			}
		}
	case "targeted":
		if targeted[cls] && rng.next()&1 == 0 {
			if o := others(t); len(o) > 0 {
				n = o[rng.intn(len(o))]
			}
		}
	case "pct":
		for len(pctChg) > 0 && eligible >= pctChg[0] {
			pctChg = pctChg[1:]
			pctLow--
			t.prio = pctLow
		}
		if h := highest(nil); h != nil && h != t {
			n = h
		}
	}
	// stall fault: freeze the running task here for a while
	if n == nil && stallBud > 0 && (cls == ClsSync || cls == ClsGlobal) && t.inCall && rng.float() < cfg.StallP {
		if o := others(t); len(o) > 0 {
			stallBud--
			span := []uint64{20, 200, 2000, 20000, 200000, 1000000}[rng.intn(6)]
			t.stallTo = gstep + span
			faultsF["stall"]++
			if len(t.held) > 0 {
				probe("stall_holding_mutex")
			}
			if cfg.Policy == "pct" {
				n = highest(t)
			} else {
				n = o[rng.intn(len(o))]
			}
		}
	}
	if n != nil && n != t {
		decided = append(decided, Decision{T: t.id, L: t.local, To: n.id})
		logEv('S', uint64(t.id), t.local, uint64(n.id))
		switchTo(t, n)
	}
}

// OpBoundary is called by the harness between two operations of a task.
func OpBoundary() {
	if !active || cur == nil {
		return
	}
	point(cur, -1, ClsOp, true)
}

// BeginCall / EndCall bracket one library operation (call + digest).
func BeginCall() {
	if active && cur != nil {
		cur.inCall = true
		cur.callSteps = 0
		cur.callBudget = 0
	}
}

// CallBudget sets the step budget of the call the running task is about to make (0 = none) and a label for reports.
func CallBudget(steps uint64, label string) {
	if active && cur != nil {
		cur.callBudget = steps
		cur.callLabel = label
	}
}

// EndCall returns a description of any sim lock the task still holds (the call
// returned or panicked out with it), else "".
func EndCall(how string) {
	if !active || cur == nil {
		return
	}
	cur.inCall = false
	if len(cur.held) > 0 || len(cur.heldRW) > 0 {
		leak(cur, how)
	}
}

func leak(t *task, how string) {
	var m *Mutex
	if len(t.held) > 0 {
		m = t.held[len(t.held)-1]
	}
	d := map[string]string{"task": fmt.Sprint(t.id), "how": how}
	key := "lock still held after call " + how
	if m != nil {
		d["locked_at"] = m.lockedAt
		key = "mutex locked at " + m.lockedFn + " still held after call " + how
	} else if len(t.heldRW) > 0 {
		rw := t.heldRW[len(t.heldRW)-1]
		d["locked_at"] = rw.lockedAt
		key = "rwmutex locked at " + rw.lockedFn + " still held after call " + how
	}
	abortRun(&Violation{Class: "LIBRARY_BLOCKED", Key: key, Detail: d}, "")
}

// ---------------------------------------------------------------------------
// publication slots (safe publication by the caller: release/acquire)

var slotVC [64]vclock

func Publish(slot int) {
	if !active || cur == nil {
		return
	}
	t := cur
	slotVC[slot].join(&t.vc)
	t.vc[t.id]++
	logEv('P', uint64(t.id), uint64(slot), 0)
}

func Acquire(slot int) {
	if !active || cur == nil {
		return
	}
	cur.vc.join(&slotVC[slot])
	logEv('A', uint64(cur.id), uint64(slot), 0)
}

// ---------------------------------------------------------------------------
// memory accesses and the happens-before monitor

func siteClass(site int32) Class {
	if site >= 0 && int(site) < len(Sites) {
		return Sites[site].Class
	}
	return ClsFieldR
}

func siteName(site int32) string {
	if site >= 0 && int(site) < len(Sites) {
		s := Sites[site]
		return s.Expr
	}
	return fmt.Sprintf("site%d", site)
}

func siteDesc(site int32) string {
	if site >= 0 && int(site) < len(Sites) {
		s := Sites[site]
		return fmt.Sprintf("%s %s in %s (%s)", ClassNames[s.Class], s.Expr, s.Func, s.Pos)
	}
	return fmt.Sprintf("site%d", site)
}

func access(addr unsafe.Pointer, site int32, write bool) {
	t := cur
	if t == nil || addr == nil {
		return
	}
	l := locs[addr]
	if l == nil {
		l = &loc{ord: int32(len(locKeep)), wT: -1, rT: -1, lastT: int8(t.id)}
		locs[addr] = l
		locKeep = append(locKeep, addr)
	}
	cls := siteClass(site)
	elig := cls == ClsGlobal || l.multi || l.lastT != int8(t.id)
	point(t, site, cls, elig)
	// monitor (after a possible switch away and back)
	me := int8(t.id)
	if l.lastT != me {
		l.multi = true
		l.lastT = me
		l.sig = l.sig*31 + uint64(me) + 1
		if cls == ClsGlobal {
			probe("global_handoff")
		}
	}
	if cls == ClsGlobal || l.multi {
		w := uint64(0)
		if write {
			w = 1
		}
		logEv('M', uint64(t.id), uint64(l.ord)<<1|w, uint64(site))
	}
	// write-x conflict
	if l.wT >= 0 && l.wT != me && l.wC > t.vc[l.wT] {
		race(l, t, site, write, l.wS, true, int(l.wT))
	}
	if write {
		if l.rT >= 0 {
			if l.rT != me && l.rC > t.vc[l.rT] {
				race(l, t, site, true, l.rS, false, int(l.rT))
			}
		} else if l.rT == -2 {
			for u := 0; u < MaxTasks; u++ {
				if u != t.id && l.rv[u] > t.vc[u] {
					race(l, t, site, true, l.rvS[u], false, u)
					break
				}
			}
		}
		l.wT, l.wC, l.wS = me, t.vc[t.id], site
		l.rT = -1
	} else {
		switch {
		case l.rT == -1 || l.rT == me:
			l.rT, l.rC, l.rS = me, t.vc[t.id], site
		case l.rT >= 0:
			// second reader: is the previous read ordered before us?
			if l.rC <= t.vc[l.rT] {
				l.rT, l.rC, l.rS = me, t.vc[t.id], site
			} else {
				if l.rv == nil {
					l.rv = new(vclock)
					l.rvS = new([MaxTasks]int32)
				} else {
					*l.rv = vclock{}
				}
				l.rv[l.rT] = l.rC
				l.rvS[l.rT] = l.rS
				l.rv[t.id] = t.vc[t.id]
				l.rvS[t.id] = site
				l.rT = -2
			}
		default:
			l.rv[t.id] = t.vc[t.id]
			l.rvS[t.id] = site
		}
	}
}

func race(l *loc, t *task, site int32, write bool, other int32, otherWrite bool, otherTask int) {
	a, b := siteName(site), siteName(other)
	if b < a {
		a, b = b, a
	}
	key := a + "|" + b
	if ignore[key] {
		known["DATA_RACE "+key]++
		return
	}
	rw := func(w bool) string {
		if w {
			return "write"
		}
		return "read"
	}
	d := map[string]string{
		"location":  fmt.Sprintf("loc#%d", l.ord),
		"access":    fmt.Sprintf("task %d %s at %s", t.id, rw(write), siteDesc(site)),
		"conflicts": fmt.Sprintf("task %d %s at %s", otherTask, rw(otherWrite), siteDesc(other)),
		"site_a":    fmt.Sprint(site),
		"site_b":    fmt.Sprint(other),
		"unordered": "no happens-before edge (mutex, once, atomic or publication) between the two accesses",
	}
	abortRun(&Violation{Class: "DATA_RACE", Key: key, Detail: d}, "")
}

// R marks a read of *p. It returns p so that `*simrt.R(&x.f, s)` evaluates
// exactly like `x.f`.
func R[T any](p *T, site int32) *T {
	if active {
		access(unsafe.Pointer(p), site, false)
	} else if Solo {
		SoloSteps++
	}
	return p
}

// W marks a write of *p.
func W[T any](p *T, site int32) *T {
	if active {
		access(unsafe.Pointer(p), site, true)
	} else if Solo {
		SoloSteps++
	}
	return p
}

// SoloSteps counts the instrumented field/variable accesses of a single-caller (oracle) process: the amount of
// work the same call needs in a fresh process, the yardstick for the per-call step budget in a simulated run.
var SoloSteps uint64

func mapAddr[M ~map[K]V, K comparable, V any](m M) unsafe.Pointer {
	return *(*unsafe.Pointer)(unsafe.Pointer(&m))
}

// MR marks a read of map m (whole map is one location, as for the Go race detector's map rules).
func MR[M ~map[K]V, K comparable, V any](m M, site int32) M {
	if active && m != nil {
		access(mapAddr[M, K, V](m), site, false)
	}
	return m
}

// MW marks a write of map m.
func MW[M ~map[K]V, K comparable, V any](m M, site int32) M {
	if active && m != nil {
		access(mapAddr[M, K, V](m), site, true)
	}
	return m
}

// MapSalt perturbs map iteration orders (0 = sorted-insertion order as found).
var MapSalt uint64
var mapIter uint64

// MapOrder returns the keys of m in an order chosen by the PRNG stream
// (a pure function of Seed, MapSalt, site and the per-run iteration count).
func MapOrder[M ~map[K]V, K comparable, V any](m M, site int32) []K {
	keys := make([]K, 0, len(m))
	for k := range m {
		keys = append(keys, k)
	}
	if !active {
		return keys
	}
	if m != nil {
		access(mapAddr[M, K, V](m), site, false)
	}
	// canonical order first (by formatted key), then a seeded shuffle
	// (each key is formatted once: formatting inside the comparison made a range over a memo of a few thousand
	// entries - "drop any one entry" - cost seconds, found through refactoring rL)
	nums := make([]uint64, len(keys))
	allNum := true
	for i, k := range keys {
		switch x := any(k).(type) {
		case int:
			nums[i] = uint64(x) ^ 1<<63
		case int64:
			nums[i] = uint64(x) ^ 1<<63
		case uint64:
			nums[i] = x
		case int32:
			nums[i] = uint64(int64(x)) ^ 1<<63
		case uint32:
			nums[i] = uint64(x)
		default:
			allNum = false
		}
		if !allNum {
			break
		}
	}
	if allNum {
		sort.Sort(&numSorter[K]{keys, nums})
	} else {
		strs := make([]string, len(keys))
		for i, k := range keys {
			if x, ok := any(k).(string); ok {
				strs[i] = x
			} else {
				strs[i] = fmt.Sprint(k)
			}
		}
		sort.Sort(&keySorter[K]{keys, strs})
	}
	mapIter++
	if MapSalt != 0 {
		s := cfg.Seed ^ MapSalt*0x9e3779b97f4a7c15 ^ uint64(site)<<32 ^ mapIter
		r := newXo(s)
		for i := len(keys) - 1; i > 0; i-- {
			j := r.intn(i + 1)
			keys[i], keys[j] = keys[j], keys[i]
		}
		faultsF["map_order"]++
	}
	return keys
}

type numSorter[K comparable] struct {
	keys []K
	nums []uint64
}

func (s *numSorter[K]) Len() int           { return len(s.keys) }
func (s *numSorter[K]) Less(i, j int) bool { return s.nums[i] < s.nums[j] }
func (s *numSorter[K]) Swap(i, j int) {
	s.keys[i], s.keys[j] = s.keys[j], s.keys[i]
	s.nums[i], s.nums[j] = s.nums[j], s.nums[i]
}

type keySorter[K comparable] struct {
	keys []K
	strs []string
}

func (s *keySorter[K]) Len() int           { return len(s.keys) }
func (s *keySorter[K]) Less(i, j int) bool { return s.strs[i] < s.strs[j] }
func (s *keySorter[K]) Swap(i, j int) {
	s.keys[i], s.keys[j] = s.keys[j], s.keys[i]
	s.strs[i], s.strs[j] = s.strs[j], s.strs[i]
}

// KV is one map entry handed to a rewritten `for k, v := range m` loop.
type KV[K comparable, V any] struct {
	K K
	V V
}

// MapPairs is what a map range loop iterates over in the instrumented copy.
// Entries are snapshotted when the loop starts (documented deviation: entries
// deleted or changed by the loop body are still seen as they were).
func MapPairs[M ~map[K]V, K comparable, V any](m M, site int32) []KV[K, V] {
	keys := MapOrder[M, K, V](m, site)
	out := make([]KV[K, V], len(keys))
	for i, k := range keys {
		out[i] = KV[K, V]{k, m[k]}
	}
	return out
}

// ---------------------------------------------------------------------------
// clock

var (
	clockMu    sync.Mutex
	clockSet   bool
	clockNow   time.Time
	clockTick  time.Duration
	ClockReads uint64
)

// SetClock installs the simulated wall clock; every read advances it by tick.
func SetClock(t time.Time, tick time.Duration) {
	clockMu.Lock()
	clockSet, clockNow, clockTick = true, t, tick
	clockMu.Unlock()
}

func Now() time.Time {
	clockMu.Lock()
	defer clockMu.Unlock()
	if !clockSet {
		return time.Now()
	}
	ClockReads++
	t := clockNow
	clockNow = clockNow.Add(clockTick)
	// like time.Now(), the value carries the process-local location
	return t.In(time.Local)
}

// AdvanceClock moves the simulated wall clock (a clock-jump fault between two calls).
func AdvanceClock(d time.Duration) {
	clockMu.Lock()
	if clockSet {
		clockNow = clockNow.Add(d)
	}
	clockMu.Unlock()
	if active && cur != nil {
		faultsF["clock_jump"]++
		logEv('K', uint64(cur.id), uint64(d/time.Second), 0)
	}
}

// PeekClock returns the value the next Now() will return, without advancing.
func PeekClock() (time.Time, bool) {
	clockMu.Lock()
	defer clockMu.Unlock()
	return clockNow, clockSet
}

// SimProcs is the processor count the simulated program sees (runtime.GOMAXPROCS / runtime.NumCPU).
var SimProcs = 4

// GOMAXPROCS, NumCPU, Gosched, NumGoroutine stand in for the runtime functions of the same name.
func GOMAXPROCS(n int) int {
	if !active {
		return runtime.GOMAXPROCS(n)
	}
	return SimProcs
}

func NumCPU() int {
	if !active {
		return runtime.NumCPU()
	}
	return SimProcs
}

func Gosched() {
	if !active || cur == nil {
		runtime.Gosched()
		return
	}
	point(cur, -1, ClsSync, true)
}

func NumGoroutine() int {
	if !active {
		return runtime.NumGoroutine()
	}
	n := 0
	for _, t := range tasks {
		if !t.done {
			n++
		}
	}
	return n
}

// Sleep is the instrumented time.Sleep: the simulated clock moves on by d and the task offers the baton.
func Sleep(d time.Duration) {
	if !active || cur == nil {
		if clockSet {
			clockMu.Lock()
			clockNow = clockNow.Add(d)
			clockMu.Unlock()
			return
		}
		time.Sleep(d)
		return
	}
	clockMu.Lock()
	if clockSet {
		clockNow = clockNow.Add(d)
	}
	clockMu.Unlock()
	point(cur, -1, ClsSync, true)
}

func Since(t time.Time) time.Duration { return Now().Sub(t) }
func Until(t time.Time) time.Duration { return t.Sub(Now()) }

// ---------------------------------------------------------------------------
// helpers

func callerOutside() (string, string) {
	// first frame outside simrt
	pc := make([]uintptr, 8)
	n := runtime.Callers(3, pc)
	fr := runtime.CallersFrames(pc[:n])
	for {
		f, more := fr.Next()
		if !strings.Contains(f.Function, "/simrt.") {
			file := f.File
			if i := strings.LastIndex(file, "/"); i >= 0 {
				if j := strings.LastIndex(file[:i], "/"); j >= 0 {
					file = file[j+1:]
				}
			}
			fn := f.Function
			if i := strings.LastIndex(fn, "/"); i >= 0 {
				fn = fn[i+1:]
			}
			return fmt.Sprintf("%s:%d", file, f.Line), fn
		}
		if !more {
			return "?", "?"
		}
	}
}
