package simrt

import (
	"reflect"
)

// Chan simulates a Go channel. In pass-through mode it is a thin wrapper over a
// real channel. Inside a simulation every operation is a scheduling point,
// blocking is handled by the scheduler (so "all tasks asleep" is detected
// exactly), and happens-before edges follow the Go memory model:
// a send happens before the receive that takes its value; a receive from an
// unbuffered channel happens before the send completes; the k-th receive from a
// buffered channel happens before the (k+cap)-th send completes (approximated
// from above by one per-channel clock, which can only hide races, never invent
// them); close happens before a receive that observes it.
//
// A buffered channel keeps its values in the real channel also during a
// simulation (non-blocking operations only), so a channel that was filled at
// package initialisation works unchanged. Unbuffered hand-offs are simulated.
type Chan[T any] struct {
	real   chan T
	cap    int
	elemVC []vclock // parallel to the buffered contents (simulation only)
	freeVC vclock   // released by receivers, acquired by senders (buffered)
	closed bool
	closVC vclock
	// unbuffered rendezvous (simulation only)
	pending     []*handoff[T]
	recvWaiting int
	ord         int32
}

type handoff[T any] struct {
	v     T
	vc    vclock
	taken bool
	rvc   vclock // receiver's clock at the moment it took the value
}

// MakeChan is the instrumented form of make(chan T, n).
func MakeChan[T any](n ...int) *Chan[T] {
	c := 0
	if len(n) > 0 {
		c = n[0]
	}
	return &Chan[T]{real: make(chan T, c), cap: c}
}

func (c *Chan[T]) Len() int {
	if c == nil {
		return 0
	}
	return len(c.real)
}

func (c *Chan[T]) Cap() int {
	if c == nil {
		return 0
	}
	return c.cap
}

type never struct{}

func (never) canProceed(t *task) bool { return false }

type chanWait struct{ ready func() bool }

func (w chanWait) canProceed(t *task) bool { return w.ready() }

func (c *Chan[T]) sendReady() bool {
	if c.closed {
		return true // will panic, as in Go
	}
	if c.cap > 0 {
		return len(c.real) < c.cap
	}
	return c.recvWaiting > 0
}

func (c *Chan[T]) recvReady() bool {
	return c.closed || len(c.real) > 0 || len(c.pending) > 0
}

func (c *Chan[T]) doSend(t *task, v T) *handoff[T] {
	if c.closed {
		panic("send on closed channel")
	}
	if c.cap > 0 {
		t.vc.join(&c.freeVC)
		c.real <- v // never blocks: readiness was checked and only one task runs
		c.elemVC = append(c.elemVC, t.vc)
		t.vc[t.id]++
		return nil
	}
	h := &handoff[T]{v: v, vc: t.vc}
	t.vc[t.id]++
	c.pending = append(c.pending, h)
	return h
}

func (c *Chan[T]) doRecv(t *task) (T, bool) {
	var zero T
	if len(c.real) > 0 {
		// values put into the channel outside a simulation (package initialisation) carry no clock and sit in FRONT of
		// the ones sent inside it: a clock is consumed only when every buffered value has one. (Consuming the first
		// clock for a clock-less front value left a later receiver of the clocked value without its sender's edge - a
		// false race on a free list filled in init(), found through refactoring rO.)
		clocked := len(c.elemVC) == len(c.real)
		v := <-c.real
		if clocked {
			t.vc.join(&c.elemVC[0])
			c.elemVC = c.elemVC[1:]
		}
		c.freeVC.join(&t.vc)
		t.vc[t.id]++
		return v, true
	}
	if len(c.pending) > 0 {
		h := c.pending[0]
		c.pending = c.pending[1:]
		t.vc.join(&h.vc)
		h.rvc = t.vc
		t.vc[t.id]++
		h.taken = true
		return h.v, true
	}
	// closed and drained
	t.vc.join(&c.closVC)
	return zero, false
}

func (c *Chan[T]) Send(v T) {
	if !active || cur == nil {
		if c == nil {
			select {}
		}
		c.real <- v
		return
	}
	t := cur
	point(t, -1, ClsSync, true)
	if c == nil {
		block(t, never{})
	}
	nextOrd(&c.ord)
	if !c.sendReady() && c.cap > 0 {
		probe("chan_send_blocked")
		block(t, chanWait{c.sendReady})
	}
	h := c.doSend(t, v)
	logEv('c', uint64(t.id), uint64(c.ord), 0)
	if h != nil {
		// unbuffered: the send completes when a receiver has taken the value
		if !h.taken {
			block(t, chanWait{func() bool { return h.taken || c.closed }})
		}
		if !h.taken {
			panic("send on closed channel")
		}
		t.vc.join(&h.rvc)
	}
	point(t, -1, ClsSync, true)
}

func (c *Chan[T]) Recv() T {
	v, _ := c.Recv2()
	return v
}

func (c *Chan[T]) Recv2() (T, bool) {
	if !active || cur == nil {
		if c == nil {
			select {}
		}
		v, ok := <-c.real
		return v, ok
	}
	t := cur
	point(t, -1, ClsSync, true)
	if c == nil {
		block(t, never{})
	}
	nextOrd(&c.ord)
	if !c.recvReady() {
		probe("chan_recv_blocked")
		c.recvWaiting++
		block(t, chanWait{c.recvReady})
		c.recvWaiting--
	}
	v, ok := c.doRecv(t)
	logEv('r', uint64(t.id), uint64(c.ord), 0)
	point(t, -1, ClsSync, true)
	return v, ok
}

func (c *Chan[T]) Close() {
	if !active || cur == nil {
		close(c.real)
		c.closed = true
		return
	}
	t := cur
	point(t, -1, ClsSync, true)
	if c == nil {
		panic("close of nil channel")
	}
	if c.closed {
		panic("close of closed channel")
	}
	nextOrd(&c.ord)
	c.closed = true
	close(c.real)
	c.closVC.join(&t.vc)
	t.vc[t.id]++
	logEv('x', uint64(t.id), uint64(c.ord), 0)
}

// ---------------------------------------------------------------------------
// select

// SelCase is one communication clause of a select statement.
type SelCase struct {
	ready func() bool
	exec  func(t *task)
	rcase reflect.SelectCase // pass-through
	after func(v reflect.Value, ok bool)
}

// Slot receives the value of a `case v, ok := <-ch` clause.
type Slot[T any] struct {
	V  T
	Ok bool
	c  *Chan[T]
}

// NewSlot prepares a receive clause on c (the element type is inferred from c).
func NewSlot[T any](c *Chan[T]) *Slot[T] { return &Slot[T]{c: c} }

// Recv is the select clause `case s.V, s.Ok = <-c`.
func (s *Slot[T]) Recv() SelCase {
	c := s.c
	if c == nil {
		return SelCase{ready: func() bool { return false }, rcase: reflect.SelectCase{Dir: reflect.SelectRecv}}
	}
	return SelCase{
		ready: c.recvReady,
		exec:  func(t *task) { s.V, s.Ok = c.doRecv(t) },
		rcase: reflect.SelectCase{Dir: reflect.SelectRecv, Chan: reflect.ValueOf(c.real)},
		after: func(v reflect.Value, ok bool) {
			if ok {
				s.V = v.Interface().(T)
			}
			s.Ok = ok
		},
	}
}

// SendCase is the select clause `case c <- v`.
func SendCase[T any](c *Chan[T], v T) SelCase {
	if c == nil {
		return SelCase{ready: func() bool { return false }, rcase: reflect.SelectCase{Dir: reflect.SelectSend}}
	}
	return SelCase{
		ready: c.sendReady,
		exec: func(t *task) {
			h := c.doSend(t, v)
			if h != nil && !h.taken {
				// a receiver is waiting (readiness); the hand-off completes when it runs
				block(t, chanWait{func() bool { return h.taken || c.closed }})
				if h.taken {
					t.vc.join(&h.rvc)
				}
			}
		},
		rcase: reflect.SelectCase{Dir: reflect.SelectSend, Chan: reflect.ValueOf(c.real), Send: reflect.ValueOf(v)},
	}
}

// Select runs a select statement; it returns the index of the clause that was
// executed, or -1 for the default clause.
func Select(hasDefault bool, cases ...SelCase) int {
	if !active || cur == nil {
		rc := make([]reflect.SelectCase, 0, len(cases)+1)
		for _, c := range cases {
			rc = append(rc, c.rcase)
		}
		if hasDefault {
			rc = append(rc, reflect.SelectCase{Dir: reflect.SelectDefault})
		}
		i, v, ok := reflect.Select(rc)
		if i >= len(cases) {
			return -1
		}
		if cases[i].after != nil {
			cases[i].after(v, ok)
		}
		return i
	}
	t := cur
	point(t, -1, ClsSync, true)
	readyList := func() []int {
		var r []int
		for i, c := range cases {
			if c.ready() {
				r = append(r, i)
			}
		}
		return r
	}
	r := readyList()
	if len(r) == 0 {
		if hasDefault {
			logEv('s', uint64(t.id), 0, ^uint64(0))
			return -1
		}
		probe("select_blocked")
		// receivers in a blocking select count as waiting receivers for unbuffered senders
		block(t, chanWait{func() bool { return len(readyList()) > 0 }})
		r = readyList()
	}
	pick := r[0]
	if len(r) > 1 {
		// Go chooses uniformly among the ready clauses: a recorded decision
		key := [2]uint64{uint64(t.id) | 1<<40, t.local}
		if cfg.Replay {
			if d, ok := replay[key]; ok {
				for _, i := range r {
					if i == d.To {
						pick = i
					}
				}
			}
		} else {
			pick = r[rng.intn(len(r))]
		}
		decided = append(decided, Decision{T: t.id, L: t.local, To: pick, Sel: true})
	}
	cases[pick].exec(t)
	logEv('s', uint64(t.id), uint64(pick), 0)
	point(t, -1, ClsSync, true)
	return pick
}
