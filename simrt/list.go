package simrt

import (
	"container/list"
	"unsafe"
)

// LR marks a read of the list header (Len/Front/Back); the whole list is one
// location.
func LR(l *list.List, site int32) *list.List {
	if active && l != nil {
		access(unsafe.Pointer(l), site, false)
	}
	return l
}

// LW marks a mutation of the list.
func LW(l *list.List, site int32) *list.List {
	if active && l != nil {
		access(unsafe.Pointer(l), site, true)
	}
	return l
}

// AP marks the in-place write of append(s, ...): when the slice has spare capacity the new element lands in the
// backing array at index len(s), which another slice may alias.
func AP[S ~[]E, E any](s S, site int32) S {
	if active && cap(s) > len(s) {
		full := s[:cap(s)]
		access(unsafe.Pointer(&full[len(s)]), site, true)
	}
	return s
}
