package simrt

import (
	"container/list"
	"unsafe"
)

// LR marks a read of the list header (Len/Front/Back); the whole list is one
// location.
func LR(l *list.List, site int32) *list.List {
	if active && l != nil {
		access(unsafe.Pointer(l), site, false)
	}
	return l
}

// LW marks a mutation of the list.
func LW(l *list.List, site int32) *list.List {
	if active && l != nil {
		access(unsafe.Pointer(l), site, true)
	}
	return l
}
