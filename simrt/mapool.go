package simrt

import (
	"fmt"
	"sort"
	"sync"
)

// Map simulates sync.Map: every operation is a scheduling point; a read that
// observes a write is ordered after it (per-key release/acquire), and Range
// visits entries in an order chosen by the PRNG (sync.Map.Range order is
// unspecified), never in Go's map iteration order.
type Map struct {
	mu   sync.Mutex
	m    map[interface{}]interface{}
	ord  map[interface{}]uint64
	vcs  map[interface{}]*vclock
	next uint64
}

func (m *Map) init() {
	if m.m == nil {
		m.m = map[interface{}]interface{}{}
		m.ord = map[interface{}]uint64{}
		m.vcs = map[interface{}]*vclock{}
	}
}

func (m *Map) pt() *task {
	if active && cur != nil {
		point(cur, -1, ClsSync, true)
		return cur
	}
	return nil
}

func (m *Map) acq(t *task, k interface{}) {
	if t != nil {
		if v := m.vcs[k]; v != nil {
			t.vc.join(v)
		}
	}
}

func (m *Map) rel(t *task, k interface{}) {
	if t != nil {
		v := m.vcs[k]
		if v == nil {
			v = new(vclock)
			m.vcs[k] = v
		}
		v.join(&t.vc)
		t.vc[t.id]++
	}
}

func (m *Map) put(k, v interface{}) {
	if _, ok := m.ord[k]; !ok {
		m.next++
		m.ord[k] = m.next
	}
	m.m[k] = v
}

func (m *Map) Load(k interface{}) (interface{}, bool) {
	t := m.pt()
	m.mu.Lock()
	defer m.mu.Unlock()
	m.init()
	v, ok := m.m[k]
	if ok {
		m.acq(t, k)
	}
	return v, ok
}

func (m *Map) Store(k, v interface{}) {
	t := m.pt()
	m.mu.Lock()
	defer m.mu.Unlock()
	m.init()
	m.put(k, v)
	m.rel(t, k)
}

func (m *Map) LoadOrStore(k, v interface{}) (interface{}, bool) {
	t := m.pt()
	m.mu.Lock()
	defer m.mu.Unlock()
	m.init()
	if a, ok := m.m[k]; ok {
		m.acq(t, k)
		return a, true
	}
	m.put(k, v)
	m.rel(t, k)
	return v, false
}

func (m *Map) LoadAndDelete(k interface{}) (interface{}, bool) {
	t := m.pt()
	m.mu.Lock()
	defer m.mu.Unlock()
	m.init()
	v, ok := m.m[k]
	if ok {
		m.acq(t, k)
		delete(m.m, k)
		m.rel(t, k)
	}
	return v, ok
}

func (m *Map) Delete(k interface{}) { m.LoadAndDelete(k) }

func (m *Map) Swap(k, v interface{}) (interface{}, bool) {
	t := m.pt()
	m.mu.Lock()
	defer m.mu.Unlock()
	m.init()
	p, ok := m.m[k]
	if ok {
		m.acq(t, k)
	}
	m.put(k, v)
	m.rel(t, k)
	return p, ok
}

func (m *Map) CompareAndSwap(k, old, new interface{}) bool {
	t := m.pt()
	m.mu.Lock()
	defer m.mu.Unlock()
	m.init()
	if p, ok := m.m[k]; ok && p == old {
		m.acq(t, k)
		m.put(k, new)
		m.rel(t, k)
		return true
	}
	return false
}

func (m *Map) CompareAndDelete(k, old interface{}) bool {
	t := m.pt()
	m.mu.Lock()
	defer m.mu.Unlock()
	m.init()
	if p, ok := m.m[k]; ok && p == old {
		m.acq(t, k)
		delete(m.m, k)
		m.rel(t, k)
		return true
	}
	return false
}

func (m *Map) Range(f func(k, v interface{}) bool) {
	t := m.pt()
	m.mu.Lock()
	m.init()
	type kv struct {
		k, v interface{}
		o    uint64
	}
	var all []kv
	for k, v := range m.m {
		all = append(all, kv{k, v, m.ord[k]})
	}
	sort.Slice(all, func(i, j int) bool { return all[i].o < all[j].o })
	if t != nil {
		for _, e := range all {
			m.acq(t, e.k)
		}
		mapIter++
		if MapSalt != 0 {
			r := newXo(cfg.Seed ^ MapSalt*0x9e3779b97f4a7c15 ^ mapIter<<20)
			for i := len(all) - 1; i > 0; i-- {
				j := r.intn(i + 1)
				all[i], all[j] = all[j], all[i]
			}
			faultsF["map_order"]++
		}
	}
	m.mu.Unlock()
	for _, e := range all {
		if !f(e.k, e.v) {
			break
		}
	}
}

func (m *Map) Clear() {
	t := m.pt()
	m.mu.Lock()
	defer m.mu.Unlock()
	m.init()
	for k := range m.m {
		m.rel(t, k)
	}
	m.m = map[interface{}]interface{}{}
}

// Pool simulates sync.Pool deterministically: LIFO reuse, and a PRNG-chosen
// share of Gets ignore the pool (a real Pool may drop items at any time).
type Pool struct {
	New   func() interface{}
	mu    sync.Mutex
	items []interface{}
	vc    vclock
}

func (p *Pool) Get() interface{} {
	var t *task
	if active && cur != nil {
		t = cur
		point(t, -1, ClsSync, true)
	}
	p.mu.Lock()
	var v interface{}
	drop := false
	if t != nil && !cfg.Replay && len(p.items) > 0 {
		drop = rng.next()%4 == 0
	}
	if n := len(p.items); n > 0 && !drop {
		v = p.items[n-1]
		p.items = p.items[:n-1]
		if t != nil {
			t.vc.join(&p.vc)
		}
	}
	p.mu.Unlock()
	if v == nil && p.New != nil {
		v = p.New()
	}
	return v
}

func (p *Pool) Put(x interface{}) {
	if x == nil {
		return
	}
	var t *task
	if active && cur != nil {
		t = cur
		point(t, -1, ClsSync, true)
	}
	p.mu.Lock()
	p.items = append(p.items, x)
	if t != nil {
		p.vc.join(&t.vc)
		t.vc[t.id]++
	}
	p.mu.Unlock()
}

var _ = fmt.Sprint
