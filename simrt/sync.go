package simrt

import (
	"fmt"
	"sync"
	"sync/atomic"
	"unsafe"
)

var syncOrd int32

func nextOrd(p *int32) int32 {
	if *p == 0 {
		syncOrd++
		*p = syncOrd
	}
	return *p
}

// ---------------------------------------------------------------------------
// Mutex

type Mutex struct {
	real       sync.Mutex
	held       bool
	holder     int
	holderLeft string
	vc         vclock
	ord        int32
	lockedAt   string
	lockedFn   string
}

func (m *Mutex) canProceed(t *task) bool { return !m.held }

func (m *Mutex) Lock() {
	if !active || cur == nil {
		if Solo && !soloMulti.Load() {
			if !m.real.TryLock() {
				soloFail("LIBRARY_BLOCKED", "mutex locked at "+m.lockedFn+"; holder "+soloHow(), map[string]string{"locked_at": m.lockedAt, "note": "single caller, nobody else can release it"})
			}
			m.lockedAt, m.lockedFn = callerOutside()
			soloHeld = append(soloHeld, soloLock{m, "mutex locked at " + m.lockedFn})
			return
		}
		m.real.Lock()
		return
	}
	t := cur
	nextOrd(&m.ord)
	point(t, -1, ClsSync, true)
	if m.held {
		probe("mutex_contended")
		if m.holder == t.id {
			probe("mutex_relock_by_holder")
		}
		block(t, m)
	}
	m.held = true
	m.holder = t.id
	m.holderLeft = "still inside its call"
	m.lockedAt, m.lockedFn = callerOutside()
	t.held = append(t.held, m)
	t.vc.join(&m.vc)
	logEv('L', uint64(t.id), uint64(m.ord), 0)
	probe("mutex_lock")
	point(t, -1, ClsSync, true)
}

func (m *Mutex) TryLock() bool {
	if !active || cur == nil {
		return m.real.TryLock()
	}
	t := cur
	nextOrd(&m.ord)
	point(t, -1, ClsSync, true)
	if m.held {
		logEv('l', uint64(t.id), uint64(m.ord), 0)
		return false
	}
	m.held = true
	m.holder = t.id
	m.holderLeft = "still inside its call"
	m.lockedAt, m.lockedFn = callerOutside()
	t.held = append(t.held, m)
	t.vc.join(&m.vc)
	logEv('L', uint64(t.id), uint64(m.ord), 1)
	return true
}

func (m *Mutex) Unlock() {
	if !active || cur == nil {
		if Solo {
			soloDrop(m)
		}
		m.real.Unlock()
		return
	}
	t := cur
	nextOrd(&m.ord)
	if !m.held {
		at, fn := callerOutside()
		abortRun(&Violation{Class: "LOCK_MISUSE", Key: "unlock of unlocked mutex in " + fn,
			Detail: map[string]string{"at": at, "task": fmt.Sprint(t.id)}}, "")
	}
	point(t, -1, ClsSync, true)
	m.vc.join(&t.vc)
	t.vc[t.id]++
	m.held = false
	for _, o := range tasks {
		for i, h := range o.held {
			if h == m {
				o.held = append(o.held[:i], o.held[i+1:]...)
				break
			}
		}
	}
	logEv('U', uint64(t.id), uint64(m.ord), 0)
	point(t, -1, ClsSync, true)
}

// ---------------------------------------------------------------------------
// RWMutex

type RWMutex struct {
	real     sync.RWMutex
	writer   bool
	wHolder  int
	readers  int
	vc       vclock // released by writers
	rvc      vclock // released by readers
	ord      int32
	lockedAt string
	lockedFn string
	// writer preference, as documented for sync.RWMutex: once a writer has called Lock, new RLock calls wait until
	// that writer has acquired and released the lock (which is why recursive read-locking can deadlock); the readers
	// that were waiting are all admitted by the writer's Unlock, before any later writer
	wWaiting int
	rWaiters []*rwRead
}

type rwWrite struct{ m *RWMutex }
type rwRead struct {
	m        *RWMutex
	admitted bool
}

func (w rwWrite) canProceed(t *task) bool { return !w.m.writer && w.m.readers == 0 }
func (r *rwRead) canProceed(t *task) bool {
	return r.admitted || (!r.m.writer && r.m.wWaiting == 0)
}

func (m *RWMutex) Lock() {
	if !active || cur == nil {
		if Solo && !soloMulti.Load() {
			if !m.real.TryLock() {
				soloFail("LIBRARY_BLOCKED", "rwmutex locked at "+m.lockedFn+"; holder "+soloHow(), map[string]string{"locked_at": m.lockedAt})
			}
			m.lockedAt, m.lockedFn = callerOutside()
			soloHeld = append(soloHeld, soloLock{m, "rwmutex locked at " + m.lockedFn})
			return
		}
		m.real.Lock()
		return
	}
	t := cur
	nextOrd(&m.ord)
	point(t, -1, ClsSync, true)
	w := rwWrite{m}
	if !w.canProceed(t) {
		probe("mutex_contended")
		m.wWaiting++
		block(t, w)
		m.wWaiting--
	}
	m.writer = true
	m.wHolder = t.id
	m.lockedAt, m.lockedFn = callerOutside()
	t.heldRW = append(t.heldRW, m)
	t.vc.join(&m.vc)
	t.vc.join(&m.rvc)
	logEv('L', uint64(t.id), uint64(m.ord), 2)
	probe("mutex_lock")
	point(t, -1, ClsSync, true)
}

func (m *RWMutex) Unlock() {
	if !active || cur == nil {
		if Solo {
			soloDrop(m)
		}
		m.real.Unlock()
		return
	}
	t := cur
	if !m.writer {
		at, fn := callerOutside()
		abortRun(&Violation{Class: "LOCK_MISUSE", Key: "unlock of unlocked rwmutex in " + fn,
			Detail: map[string]string{"at": at, "task": fmt.Sprint(t.id)}}, "")
	}
	point(t, -1, ClsSync, true)
	m.vc.join(&t.vc)
	t.vc[t.id]++
	m.writer = false
	for _, r := range m.rWaiters {
		if !r.admitted {
			r.admitted = true
			m.readers++
		}
	}
	dropRW(m)
	logEv('U', uint64(t.id), uint64(m.ord), 2)
	point(t, -1, ClsSync, true)
}

func dropRW(m *RWMutex) {
	t := cur
	for i := len(t.heldRW) - 1; i >= 0; i-- {
		if t.heldRW[i] == m {
			t.heldRW = append(t.heldRW[:i], t.heldRW[i+1:]...)
			return
		}
	}
	for _, o := range tasks {
		for i, h := range o.heldRW {
			if h == m {
				o.heldRW = append(o.heldRW[:i], o.heldRW[i+1:]...)
				return
			}
		}
	}
}

func (m *RWMutex) RLock() {
	if !active || cur == nil {
		if Solo && !soloMulti.Load() {
			if !m.real.TryRLock() {
				soloFail("LIBRARY_BLOCKED", "rwmutex locked at "+m.lockedFn+"; holder "+soloHow(), map[string]string{"locked_at": m.lockedAt})
			}
			m.lockedAt, m.lockedFn = callerOutside()
			soloHeld = append(soloHeld, soloLock{m, "rwmutex locked at " + m.lockedFn})
			return
		}
		m.real.RLock()
		return
	}
	t := cur
	nextOrd(&m.ord)
	point(t, -1, ClsSync, true)
	r := &rwRead{m: m}
	if !r.canProceed(t) {
		probe("mutex_contended")
		if !m.writer {
			probe("rlock_waits_behind_pending_writer")
		}
		m.rWaiters = append(m.rWaiters, r)
		block(t, r)
		for i, x := range m.rWaiters {
			if x == r {
				m.rWaiters = append(m.rWaiters[:i], m.rWaiters[i+1:]...)
				break
			}
		}
	}
	if !r.admitted {
		m.readers++
	}
	m.lockedAt, m.lockedFn = callerOutside()
	t.heldRW = append(t.heldRW, m)
	t.vc.join(&m.vc)
	logEv('L', uint64(t.id), uint64(m.ord), 3)
	probe("mutex_rlock")
	point(t, -1, ClsSync, true)
}

func (m *RWMutex) RUnlock() {
	if !active || cur == nil {
		if Solo {
			soloDrop(m)
		}
		m.real.RUnlock()
		return
	}
	t := cur
	if m.readers <= 0 {
		at, fn := callerOutside()
		abortRun(&Violation{Class: "LOCK_MISUSE", Key: "runlock of unlocked rwmutex in " + fn,
			Detail: map[string]string{"at": at, "task": fmt.Sprint(t.id)}}, "")
	}
	point(t, -1, ClsSync, true)
	m.rvc.join(&t.vc)
	t.vc[t.id]++
	m.readers--
	dropRW(m)
	logEv('U', uint64(t.id), uint64(m.ord), 3)
	point(t, -1, ClsSync, true)
}

func (m *RWMutex) TryLock() bool {
	if !active || cur == nil {
		return m.real.TryLock()
	}
	w := rwWrite{m}
	point(cur, -1, ClsSync, true)
	if !w.canProceed(cur) {
		return false
	}
	t := cur
	nextOrd(&m.ord)
	m.writer = true
	m.wHolder = t.id
	m.lockedAt, m.lockedFn = callerOutside()
	t.heldRW = append(t.heldRW, m)
	t.vc.join(&m.vc)
	t.vc.join(&m.rvc)
	return true
}

func (m *RWMutex) TryRLock() bool {
	if !active || cur == nil {
		return m.real.TryRLock()
	}
	point(cur, -1, ClsSync, true)
	if m.writer || m.wWaiting > 0 {
		return false
	}
	t := cur
	nextOrd(&m.ord)
	m.readers++
	m.lockedAt, m.lockedFn = callerOutside()
	t.heldRW = append(t.heldRW, m)
	t.vc.join(&m.vc)
	return true
}

type rlocker RWMutex

func (r *rlocker) Lock()   { (*RWMutex)(r).RLock() }
func (r *rlocker) Unlock() { (*RWMutex)(r).RUnlock() }

func (m *RWMutex) RLocker() sync.Locker { return (*rlocker)(m) }

// ---------------------------------------------------------------------------
// Once

type Once struct {
	real   sync.Once
	state  int // 0 new, 1 running, 2 done
	runner int
	vc     vclock
	ord    int32
}

func (o *Once) canProceed(t *task) bool { return o.state != 1 }

func (o *Once) Do(f func()) {
	if !active || cur == nil {
		o.real.Do(f)
		return
	}
	t := cur
	nextOrd(&o.ord)
	point(t, -1, ClsSync, true)
	if o.state == 1 {
		probe("once_contended")
		block(t, o) // self-recursion deadlocks, as with sync.Once
	}
	if o.state == 2 {
		t.vc.join(&o.vc)
		logEv('O', uint64(t.id), uint64(o.ord), 2)
		return
	}
	o.state = 1
	o.runner = t.id
	logEv('O', uint64(t.id), uint64(o.ord), 1)
	defer func() {
		// sync.Once marks done even if f panics
		o.vc.join(&t.vc)
		t.vc[t.id]++
		o.state = 2
		point(t, -1, ClsSync, true)
	}()
	f()
}

// ---------------------------------------------------------------------------
// atomics: every operation is a scheduling point and a release+acquire on a
// per-location clock; they never race.

var atomVC map[unsafe.Pointer]*vclock

func atomPoint(p unsafe.Pointer, acquire, release bool) {
	if !active || cur == nil {
		return
	}
	t := cur
	point(t, -1, ClsSync, true)
	if atomVC == nil {
		atomVC = map[unsafe.Pointer]*vclock{}
	}
	v := atomVC[p]
	if v == nil {
		v = new(vclock)
		atomVC[p] = v
	}
	if acquire {
		t.vc.join(v)
	}
	if release {
		v.join(&t.vc)
		t.vc[t.id]++
	}
	logEv('T', uint64(t.id), 0, 0)
}

type AtomicValue struct{ v atomic.Value }

func (a *AtomicValue) Load() interface{} {
	atomPoint(unsafe.Pointer(a), true, false)
	return a.v.Load()
}
func (a *AtomicValue) Store(x interface{}) {
	atomPoint(unsafe.Pointer(a), false, true)
	a.v.Store(x)
}
func (a *AtomicValue) Swap(x interface{}) interface{} {
	atomPoint(unsafe.Pointer(a), true, true)
	return a.v.Swap(x)
}
func (a *AtomicValue) CompareAndSwap(o, n interface{}) bool {
	atomPoint(unsafe.Pointer(a), true, true)
	return a.v.CompareAndSwap(o, n)
}

type AtomicInt32 struct{ v atomic.Int32 }

func (a *AtomicInt32) Load() int32 { atomPoint(unsafe.Pointer(a), true, false); return a.v.Load() }
func (a *AtomicInt32) Store(x int32) {
	atomPoint(unsafe.Pointer(a), false, true)
	a.v.Store(x)
}
func (a *AtomicInt32) Add(d int32) int32 {
	atomPoint(unsafe.Pointer(a), true, true)
	return a.v.Add(d)
}
func (a *AtomicInt32) Swap(x int32) int32 {
	atomPoint(unsafe.Pointer(a), true, true)
	return a.v.Swap(x)
}
func (a *AtomicInt32) CompareAndSwap(o, n int32) bool {
	atomPoint(unsafe.Pointer(a), true, true)
	return a.v.CompareAndSwap(o, n)
}

type AtomicInt64 struct{ v atomic.Int64 }

func (a *AtomicInt64) Load() int64 { atomPoint(unsafe.Pointer(a), true, false); return a.v.Load() }
func (a *AtomicInt64) Store(x int64) {
	atomPoint(unsafe.Pointer(a), false, true)
	a.v.Store(x)
}
func (a *AtomicInt64) Add(d int64) int64 {
	atomPoint(unsafe.Pointer(a), true, true)
	return a.v.Add(d)
}
func (a *AtomicInt64) Swap(x int64) int64 {
	atomPoint(unsafe.Pointer(a), true, true)
	return a.v.Swap(x)
}
func (a *AtomicInt64) CompareAndSwap(o, n int64) bool {
	atomPoint(unsafe.Pointer(a), true, true)
	return a.v.CompareAndSwap(o, n)
}

type AtomicBool struct{ v atomic.Bool }

func (a *AtomicBool) Load() bool { atomPoint(unsafe.Pointer(a), true, false); return a.v.Load() }
func (a *AtomicBool) Store(x bool) {
	atomPoint(unsafe.Pointer(a), false, true)
	a.v.Store(x)
}
func (a *AtomicBool) Swap(x bool) bool {
	atomPoint(unsafe.Pointer(a), true, true)
	return a.v.Swap(x)
}
func (a *AtomicBool) CompareAndSwap(o, n bool) bool {
	atomPoint(unsafe.Pointer(a), true, true)
	return a.v.CompareAndSwap(o, n)
}

func AtomicLoadInt32(p *int32) int32 {
	atomPoint(unsafe.Pointer(p), true, false)
	return atomic.LoadInt32(p)
}
func AtomicStoreInt32(p *int32, v int32) {
	atomPoint(unsafe.Pointer(p), false, true)
	atomic.StoreInt32(p, v)
}
func AtomicAddInt32(p *int32, d int32) int32 {
	atomPoint(unsafe.Pointer(p), true, true)
	return atomic.AddInt32(p, d)
}
func AtomicSwapInt32(p *int32, v int32) int32 {
	atomPoint(unsafe.Pointer(p), true, true)
	return atomic.SwapInt32(p, v)
}
func AtomicCompareAndSwapInt32(p *int32, o, n int32) bool {
	atomPoint(unsafe.Pointer(p), true, true)
	return atomic.CompareAndSwapInt32(p, o, n)
}
func AtomicLoadInt64(p *int64) int64 {
	atomPoint(unsafe.Pointer(p), true, false)
	return atomic.LoadInt64(p)
}
func AtomicStoreInt64(p *int64, v int64) {
	atomPoint(unsafe.Pointer(p), false, true)
	atomic.StoreInt64(p, v)
}
func AtomicAddInt64(p *int64, d int64) int64 {
	atomPoint(unsafe.Pointer(p), true, true)
	return atomic.AddInt64(p, d)
}
func AtomicSwapInt64(p *int64, v int64) int64 {
	atomPoint(unsafe.Pointer(p), true, true)
	return atomic.SwapInt64(p, v)
}
func AtomicCompareAndSwapInt64(p *int64, o, n int64) bool {
	atomPoint(unsafe.Pointer(p), true, true)
	return atomic.CompareAndSwapInt64(p, o, n)
}
func AtomicLoadUint32(p *uint32) uint32 {
	atomPoint(unsafe.Pointer(p), true, false)
	return atomic.LoadUint32(p)
}
func AtomicStoreUint32(p *uint32, v uint32) {
	atomPoint(unsafe.Pointer(p), false, true)
	atomic.StoreUint32(p, v)
}
func AtomicAddUint32(p *uint32, d uint32) uint32 {
	atomPoint(unsafe.Pointer(p), true, true)
	return atomic.AddUint32(p, d)
}
func AtomicCompareAndSwapUint32(p *uint32, o, n uint32) bool {
	atomPoint(unsafe.Pointer(p), true, true)
	return atomic.CompareAndSwapUint32(p, o, n)
}
func AtomicLoadUint64(p *uint64) uint64 {
	atomPoint(unsafe.Pointer(p), true, false)
	return atomic.LoadUint64(p)
}
func AtomicStoreUint64(p *uint64, v uint64) {
	atomPoint(unsafe.Pointer(p), false, true)
	atomic.StoreUint64(p, v)
}
func AtomicAddUint64(p *uint64, d uint64) uint64 {
	atomPoint(unsafe.Pointer(p), true, true)
	return atomic.AddUint64(p, d)
}
func AtomicCompareAndSwapUint64(p *uint64, o, n uint64) bool {
	atomPoint(unsafe.Pointer(p), true, true)
	return atomic.CompareAndSwapUint64(p, o, n)
}
func AtomicLoadPointer(p *unsafe.Pointer) unsafe.Pointer {
	atomPoint(unsafe.Pointer(p), true, false)
	return atomic.LoadPointer(p)
}
func AtomicStorePointer(p *unsafe.Pointer, v unsafe.Pointer) {
	atomPoint(unsafe.Pointer(p), false, true)
	atomic.StorePointer(p, v)
}
func AtomicCompareAndSwapPointer(p *unsafe.Pointer, o, n unsafe.Pointer) bool {
	atomPoint(unsafe.Pointer(p), true, true)
	return atomic.CompareAndSwapPointer(p, o, n)
}

// ---------------------------------------------------------------------------
// Solo mode: pass-through execution by a single caller (the fresh-process
// oracle). A lock that cannot be taken can never be released by anybody, and a
// lock still held when the call is over blocks every later caller.

var (
	Solo     bool
	SoloFail func(class, key string, detail map[string]string)
	soloHeld []soloLock
)

// soloLock: one acquisition (a recursive read lock appears twice); released by identity, not by the name of the
// function that locked last
type soloLock struct {
	id   interface{}
	name string
}

func soloHow() string {
	return "is the single caller itself (an earlier call left it locked, or the lock is re-entered)"
}

func soloFail(class, key string, d map[string]string) {
	if SoloFail != nil {
		SoloFail(class, key, d)
	}
	panic("simrt: solo violation " + class + " " + key)
}

func soloDrop(id interface{}) {
	for i := len(soloHeld) - 1; i >= 0; i-- {
		if soloHeld[i].id == id {
			soloHeld = append(soloHeld[:i], soloHeld[i+1:]...)
			return
		}
	}
}

var soloMulti atomic.Bool

// SoloEnd reports a lock that is still held after the call.
func SoloEnd(how string) {
	if Solo && !soloMulti.Load() && len(soloHeld) > 0 {
		soloFail("LIBRARY_BLOCKED", soloHeld[len(soloHeld)-1].name+" still held after call "+how, map[string]string{"how": how})
	}
}

type AtomicUint32 struct{ v atomic.Uint32 }

func (a *AtomicUint32) Load() uint32 { atomPoint(unsafe.Pointer(a), true, false); return a.v.Load() }
func (a *AtomicUint32) Store(x uint32) {
	atomPoint(unsafe.Pointer(a), false, true)
	a.v.Store(x)
}
func (a *AtomicUint32) Add(d uint32) uint32 {
	atomPoint(unsafe.Pointer(a), true, true)
	return a.v.Add(d)
}
func (a *AtomicUint32) Swap(x uint32) uint32 {
	atomPoint(unsafe.Pointer(a), true, true)
	return a.v.Swap(x)
}
func (a *AtomicUint32) CompareAndSwap(o, n uint32) bool {
	atomPoint(unsafe.Pointer(a), true, true)
	return a.v.CompareAndSwap(o, n)
}

type AtomicUint64 struct{ v atomic.Uint64 }

func (a *AtomicUint64) Load() uint64 { atomPoint(unsafe.Pointer(a), true, false); return a.v.Load() }
func (a *AtomicUint64) Store(x uint64) {
	atomPoint(unsafe.Pointer(a), false, true)
	a.v.Store(x)
}
func (a *AtomicUint64) Add(d uint64) uint64 {
	atomPoint(unsafe.Pointer(a), true, true)
	return a.v.Add(d)
}
func (a *AtomicUint64) Swap(x uint64) uint64 {
	atomPoint(unsafe.Pointer(a), true, true)
	return a.v.Swap(x)
}
func (a *AtomicUint64) CompareAndSwap(o, n uint64) bool {
	atomPoint(unsafe.Pointer(a), true, true)
	return a.v.CompareAndSwap(o, n)
}

// AtomicPointer simulates atomic.Pointer[T].
type AtomicPointer[T any] struct{ v atomic.Pointer[T] }

func (a *AtomicPointer[T]) Load() *T { atomPoint(unsafe.Pointer(a), true, false); return a.v.Load() }
func (a *AtomicPointer[T]) Store(x *T) {
	atomPoint(unsafe.Pointer(a), false, true)
	a.v.Store(x)
}
func (a *AtomicPointer[T]) Swap(x *T) *T {
	atomPoint(unsafe.Pointer(a), true, true)
	return a.v.Swap(x)
}
func (a *AtomicPointer[T]) CompareAndSwap(o, n *T) bool {
	atomPoint(unsafe.Pointer(a), true, true)
	return a.v.CompareAndSwap(o, n)
}

// ---------------------------------------------------------------------------
// WaitGroup

type WaitGroup struct {
	real sync.WaitGroup
	n    int
	vc   vclock
	ord  int32
}

func (w *WaitGroup) canProceed(t *task) bool { return w.n <= 0 }

func (w *WaitGroup) Add(d int) {
	if !active || cur == nil {
		w.real.Add(d)
		return
	}
	t := cur
	nextOrd(&w.ord)
	point(t, -1, ClsSync, true)
	w.n += d
	if w.n < 0 {
		panic("sync: negative WaitGroup counter")
	}
	if d < 0 {
		w.vc.join(&t.vc)
		t.vc[t.id]++
	}
	logEv('W', uint64(t.id), uint64(w.ord), uint64(w.n))
}

func (w *WaitGroup) Done() { w.Add(-1) }

func (w *WaitGroup) Wait() {
	if !active || cur == nil {
		w.real.Wait()
		return
	}
	t := cur
	nextOrd(&w.ord)
	point(t, -1, ClsSync, true)
	if w.n > 0 {
		block(t, w)
	}
	t.vc.join(&w.vc)
	logEv('w', uint64(t.id), uint64(w.ord), 0)
}

// ---------------------------------------------------------------------------
// Cond

// Cond simulates sync.Cond: Wait releases L, parks the task until a Signal or Broadcast that comes AFTER the
// Wait began, and re-acquires L. Which waiter a Signal wakes is the scheduler's choice (a recorded decision).
type Cond struct {
	L    sync.Locker
	real *sync.Cond
	// simulation
	waiters []*condWaiter
	vc      vclock
}

type condWaiter struct {
	t     *task
	woken bool
}

func (w *condWaiter) canProceed(t *task) bool { return w.woken }

func NewCond(l sync.Locker) *Cond { return &Cond{L: l, real: sync.NewCond(l)} }

func (c *Cond) rc() *sync.Cond {
	if c.real == nil {
		c.real = sync.NewCond(c.L)
	}
	return c.real
}

func (c *Cond) Wait() {
	if !active || cur == nil {
		c.rc().Wait()
		return
	}
	t := cur
	w := &condWaiter{t: t}
	c.waiters = append(c.waiters, w)
	c.L.Unlock()
	probe("cond_wait")
	block(t, w)
	t.vc.join(&c.vc)
	c.L.Lock()
}

func (c *Cond) Signal() {
	if !active || cur == nil {
		c.rc().Signal()
		return
	}
	t := cur
	point(t, -1, ClsSync, true)
	c.vc.join(&t.vc)
	t.vc[t.id]++
	if len(c.waiters) == 0 {
		return
	}
	i := 0
	if len(c.waiters) > 1 {
		key := [2]uint64{uint64(t.id) | 1<<40, t.local}
		if cfg.Replay {
			if d, ok := replay[key]; ok && d.To >= 0 && d.To < len(c.waiters) {
				i = d.To
			}
		} else {
			i = rng.intn(len(c.waiters))
		}
		decided = append(decided, Decision{T: t.id, L: t.local, To: i, Sel: true})
	}
	c.waiters[i].woken = true
	c.waiters = append(c.waiters[:i], c.waiters[i+1:]...)
}

func (c *Cond) Broadcast() {
	if !active || cur == nil {
		c.rc().Broadcast()
		return
	}
	t := cur
	point(t, -1, ClsSync, true)
	c.vc.join(&t.vc)
	t.vc[t.id]++
	for _, w := range c.waiters {
		w.woken = true
	}
	c.waiters = nil
}
